"""E2 driver: generate the C++ from the current tree, compile it with `double` -> vsym::Sym, run it, load leaves."""
from __future__ import annotations

import glob
import os
import re
import shutil
import struct
import subprocess
import sys
import tempfile
from fractions import Fraction

import z3

HERE = os.path.dirname(os.path.abspath(__file__))
INC = os.path.join(HERE, "include")
REPO = os.environ.get("FORMAK_REPO", "/repo")
CXX = os.environ.get("VSYM_CXX", "g++")
STD = "-std=c++17"


class BuildError(Exception):
    def __init__(self, msg, log=""):
        super().__init__(msg)
        self.log = log


def workdir(tag="vsym"):
    base = os.environ.get("TMPDIR", "/tmp")
    return tempfile.mkdtemp(prefix=f"formak-{tag}-", dir=base)


def cleanup(d):
    shutil.rmtree(d, ignore_errors=True)


# ------------------------------------------------------------------------------------------- generation


def _generate_once(p, header, source, *, ekf, cfg, namespace, container, reverse, noise, cal_container, objs=None):
    """One call of the real formak.cpp entry point. `objs` lets a second call reuse the very same argument objects."""
    from formak import cpp

    argv = sys.argv
    sys.argv = ["generator.py", "--header", header, "--source", source, "--namespace", namespace]
    cwd = os.getcwd()
    os.chdir(REPO)  # templates are opened relative to the repository root
    try:
        if objs is None:
            objs = {"model": p.ui_model(container, cal_container=cal_container), "calmap": p.sympy_calibration_map()}
            if ekf:
                objs["pn"] = p.sympy_process_noise(noise[0] if noise else None)
                objs["sn"] = p.sympy_sensor_noise(noise[1] if noise else None)
                objs["sens"] = p.sympy_sensors(reverse=reverse)
        if ekf:
            res = cpp.compile_ekf(objs["model"], objs["pn"], objs["sens"], objs["sn"], objs["calmap"], config=cfg)
        else:
            res = cpp.compile(objs["model"], objs["calmap"], config=cfg)
    finally:
        sys.argv = argv
        os.chdir(cwd)
    if not res.success:
        raise BuildError("formak.cpp reported success=False")
    return objs


def generate(p, outdir, *, ekf=True, cse=True, k=5.0, max_dt=0.1, namespace="gen", name="gen", container="list", reverse=False, noise=None, cal_container="set", warm_program=None, config_form="auto"):
    """Run the real formak.cpp entry point (compile / compile_ekf) for program p.  Returns (header, source).

    History dimension of the *generator*: if warm_program is given, a filter for that (differently shaped) program is
    generated first in the same process, and the target is then generated TWICE from the very same argument objects;
    the second result is the one returned (a first-generation-only result could not be affected by carried state).
    `generate.last_info` records whether the two generations produced identical text."""
    from formak import cpp

    gdir = os.path.join(outdir, "generated", "formak")
    os.makedirs(gdir, exist_ok=True)
    header = os.path.join(gdir, f"{name}.h")
    source = os.path.join(outdir, f"{name}.cpp")
    # both documented forms of `config` are exercised: a cpp.Config object, or the equivalent dict
    # (auto: the dict form whenever filtering is disabled, the object form otherwise)
    if config_form == "auto":
        config_form = "dict" if k is None else "object"
    if config_form == "dict":
        cfg = {"common_subexpression_elimination": cse, "innovation_filtering": k, "max_dt_sec": max_dt}
    else:
        cfg = cpp.Config(common_subexpression_elimination=cse, innovation_filtering=k, max_dt_sec=max_dt)
    kw = dict(ekf=ekf, cfg=cfg, namespace=namespace, container=container, reverse=reverse, noise=noise, cal_container=cal_container)
    info = {"warm": None, "identical": None, "config_form": config_form}
    if warm_program is not None:
        wdir = os.path.join(outdir, "warm", "generated", "formak")
        os.makedirs(wdir, exist_ok=True)
        _generate_once(warm_program, os.path.join(wdir, "w.h"), os.path.join(outdir, "warm", "w.cpp"), ekf=ekf, cfg=cfg, namespace="warm", container="list", reverse=False, noise=None, cal_container="set")
        info["warm"] = warm_program.id
        objs = _generate_once(p, header, source, **kw)
        first = (open(header).read(), open(source).read())
        _generate_once(p, header, source, objs=objs, **kw)
        info["identical"] = first == (open(header).read(), open(source).read())
    else:
        _generate_once(p, header, source, **kw)
    generate.last_info = info
    return header, source


generate.last_info = {}


# ------------------------------------------------------------------------------------------- compilation

PRELUDE = r"""
// ---- standard headers first, so that the later `#define double` cannot touch them
#include <Eigen/Dense>
#include <any>
#include <chrono>
#include <cmath>
#include <cstddef>
#include <iostream>
#include <memory>
#include <optional>
#include <type_traits>
#include <unordered_map>
#include <vector>
#include <string>
#include <vsym/sym.h>
#ifndef VSYM_CONCRETE
#define double vsym::Sym
#endif
#include <formak/innovation_filtering.h>
%(includes)s
#ifndef VSYM_CONCRETE
#undef double
#endif
using vsym::S;
"""


def compile_driver(outdir, body, *, includes=(), concrete=False, name="driver", extra_flags=(), expect_fail=False):
    """body: C++ text after the prelude (must define main)."""
    inc_lines = "\n".join(includes)
    src = os.path.join(outdir, f"{name}{'_c' if concrete else ''}.cpp")
    with open(src, "w") as f:
        f.write(PRELUDE % {"includes": inc_lines})
        f.write(body)
    exe = os.path.join(outdir, f"{name}{'_c' if concrete else ''}")
    # a non-void function that can fall off its end is an error here as in the project's own build (-Wall -Werror)
    cmd = [CXX, STD, "-O0", "-Werror=return-type", "-I", INC, "-I", os.path.join(outdir, "generated"), "-I", outdir, "-I", os.path.join(REPO, "cpp", "include"), "-I", os.path.join(REPO, "cpp", "runtime", "include")]
    if concrete:
        cmd.append("-DVSYM_CONCRETE")
    cmd += list(extra_flags) + [src, "-o", exe]
    r = subprocess.run(cmd, capture_output=True, text=True)
    if r.returncode != 0:
        if expect_fail:
            return None, r.stderr
        raise BuildError(f"compilation failed ({'concrete' if concrete else 'symbolic'})", r.stderr[-6000:])
    if expect_fail:
        return exe, r.stderr
    return exe


# ------------------------------------------------------------------------------------------- running + loading

_DTOK = re.compile(r"#D([0-9a-f]{16})")


def _dconst(m):
    bits = int(m.group(1), 16)
    v = struct.unpack("<d", struct.pack("<Q", bits))[0]
    fr = Fraction(v)
    if fr.denominator == 1:
        s = f"{abs(fr.numerator)}.0"
    else:
        s = f"(/ {abs(fr.numerator)}.0 {fr.denominator}.0)"
    return f"(- {s})" if fr < 0 else s


class CLeaf:
    def __init__(self, path, decisions, outs, pc, bouts, notes):
        self.path = path
        self.decisions = decisions
        self.out = outs  # name -> z3 real term
        self.bout = bouts  # name -> z3 bool term
        self.pc = pc  # list of z3 bool terms
        self.notes = notes

    def pc_term(self):
        return z3.And(*self.pc) if self.pc else z3.BoolVal(True)

    def inverse_cuts(self):
        """{k: (arg matrix terms, result symbols)} from the recorded arg_inv<k>_<i><j> outputs."""
        cuts = {}
        for nm, t in self.out.items():
            m = re.match(r"arg_inv(\d+)_(\d)(\d)$", nm)
            if m:
                k, i, j = int(m.group(1)), int(m.group(2)), int(m.group(3))
                cuts.setdefault(k, {})[(i, j)] = t
        res = {}
        for k, ent in cuts.items():
            n = max(i for i, _ in ent) + 1
            res[k] = ([[ent[(i, j)] for j in range(n)] for i in range(n)], [[z3.Real(f"inv{k}_{i}{j}") for j in range(n)] for i in range(n)])
        return res


UF_DECLS = "".join(f"(declare-fun uf_{n} (Real) Real)\n" for n in ("sin", "cos", "exp", "log", "sqrt", "asin", "acos", "atan", "sinh", "cosh")) + "(declare-fun uf_atan2 (Real Real) Real)\n"


def load_leaf(path, extra_decls="", fp=False):
    txt = open(path).read()
    notes = [l[7:].strip() for l in txt.splitlines() if l.startswith("; note ")]
    if fp:
        txt = _DTOK.sub(lambda m: f"((_ to_fp 11 53) #x{m.group(1)})", txt)
        asserts = z3.parse_smt2_string(extra_decls + txt)
    else:
        txt = _DTOK.sub(_dconst, txt)
        asserts = z3.parse_smt2_string(UF_DECLS + extra_decls + txt)
    outs, bouts, pcs = {}, {}, {}
    for a in asserts:
        assert z3.is_eq(a), a
        l, r = a.arg(0), a.arg(1)
        if not (z3.is_const(l) and l.decl().name().startswith(("out!", "pc!"))):
            l, r = r, l
        nm = l.decl().name()
        if nm.startswith("out!"):
            if z3.is_bool(l):
                bouts[nm[4:]] = r
            else:
                outs[nm[4:]] = r
        elif nm.startswith("pc!"):
            pcs[int(nm[3:])] = r
        else:
            raise ValueError(f"unexpected assertion {a}")
    base = os.path.basename(path)
    dec = base.split(".")[-2]
    return CLeaf(path, "" if dec == "_" else dec, outs, [pcs[i] for i in sorted(pcs)], bouts, notes)


def run_symbolic(exe, outdir, prefix, args=(), kmax=3, timeout=600, extra_decls="", fp=False):
    """Run the symbolic driver; returns (leaves, n_cut)."""
    pfx = os.path.join(outdir, prefix)
    for f in glob.glob(pfx + ".*.smt2") + glob.glob(pfx + ".*.cut"):
        os.remove(f)
    env = dict(os.environ, VSYM_KMAX=str(kmax))
    r = subprocess.run([exe, pfx] + list(args), capture_output=True, text=True, timeout=timeout, env=env)
    if r.returncode != 0:
        raise BuildError(f"symbolic driver failed rc={r.returncode}", (r.stdout + r.stderr)[-4000:])
    files = sorted(glob.glob(pfx + ".*.smt2"))
    cuts = len(glob.glob(pfx + ".*.cut"))
    return [load_leaf(f, extra_decls, fp=fp) for f in files], cuts


def run_concrete(exe, outdir, inputs, args=(), timeout=120):
    """inputs: name -> float.  Returns dict(out name -> float), dict(bool outs), notes list."""
    fn = os.path.join(outdir, "inputs.txt")
    with open(fn, "w") as f:
        for k, v in inputs.items():
            f.write(f"{k} {float(v)!r}\n")
    r = subprocess.run([exe, fn] + list(args), capture_output=True, text=True, timeout=timeout)
    if r.returncode != 0:
        raise BuildError(f"concrete driver failed rc={r.returncode}", (r.stdout + r.stderr)[-4000:])
    outs, bouts, notes = {}, {}, []
    for line in r.stdout.splitlines():
        t = line.split()
        if not t:
            continue
        if t[0] == "out":
            outs[t[1]] = float(t[2])
        elif t[0] == "outb":
            bouts[t[1]] = bool(int(t[2]))
        elif t[0] == "note":
            notes.append(" ".join(t[1:]))
    return outs, bouts, notes
