#pragma once
// E2: symbolic real scalar. While the *real* generated C++ / ManagedFilter.h / innovation_filtering.h run
// with `double` replaced by vsym::Sym, every arithmetic operation appends a node to an SMT-LIB DAG;
// SymBool -> bool is the fork point (fork(2): child = true, parent = false); each leaf writes one file.
//
// With -DVSYM_CONCRETE this header provides the same API on plain doubles (the replay twin).
#include <cmath>
#include <cstddef>
#include <cstdint>
#include <cstdio>
#include <cstdlib>
#include <cstring>
#include <map>
#include <string>
#include <type_traits>
#include <utility>
#include <vector>

#ifndef VSYM_CONCRETE
#include <sys/wait.h>
#include <unistd.h>

namespace vsym {

struct Store {
  std::vector<std::string> defs;   // node i: SMT-LIB term
  std::vector<char> is_bool;       // sort of node i
  std::vector<std::string> pc;     // path condition terms
  std::vector<std::string> decls;  // declared real inputs
  std::vector<std::pair<std::string, std::string>> outs;  // named outputs (name, term)
  std::vector<std::string> notes;  // free-form event trace (name only)
  std::string path;                // decisions taken "TF.."
  std::string prefix = "leaf";
  int inv_count = 0;
  int uninit_count = 0;
  int kmax = 3;
  static Store& get() {
    static Store s;
    return s;
  }
  int add(const std::string& t, bool b = false) {
    defs.push_back(t);
    is_bool.push_back(b ? 1 : 0);
    return (int)defs.size() - 1;
  }
};

// exact encoding of a double: "#D<16 hex digits of the IEEE bits>" - turned into an exact rational by the loader
inline std::string cstr(double v) {
  if (!std::isfinite(v)) {
    fprintf(stderr, "vsym: non-finite constant\n");
    _exit(3);
  }
  uint64_t bits;
  memcpy(&bits, &v, sizeof bits);
  char buf[32];
  snprintf(buf, sizeof buf, "#D%016llx", (unsigned long long)bits);
  return buf;
}

struct Sym {
  double c;
  int id;
  constexpr Sym() : c(0.0), id(-1) {}
  template <class T, class = typename std::enable_if<std::is_arithmetic<T>::value>::type>
  constexpr Sym(T v) : c((double)v), id(-1) {}
  constexpr bool is_const() const { return id < 0; }
  std::string term() const { return is_const() ? cstr(c) : "n" + std::to_string(id); }
  static Sym node(const std::string& t) {
    Sym s;
    s.id = Store::get().add(t);
    return s;
  }
  static Sym input(const std::string& name) {
    Store& st = Store::get();
    bool seen = false;
    for (auto& d : st.decls)
      if (d == name) seen = true;
    if (!seen) st.decls.push_back(name);
    return node(name);
  }
  explicit operator size_t() const;  // concretisation with forking over 0..K
};

struct SymBool {
  bool known;
  bool val;
  int id;
  constexpr SymBool(bool v) : known(true), val(v), id(-1) {}
  SymBool(int node, int) : known(false), val(false), id(node) {}
  constexpr operator bool() const { return known ? val : decide(); }
  bool decide() const {
    Store& s = Store::get();
    fflush(nullptr);
    pid_t p = fork();
    if (p < 0) {
      perror("fork");
      _exit(4);
    }
    if (p == 0) {
      s.pc.push_back("n" + std::to_string(id));
      s.path += "T";
      return true;
    }
    int st = 0;
    waitpid(p, &st, 0);
    if (!WIFEXITED(st) || (WEXITSTATUS(st) != 0)) {
      fprintf(stderr, "vsym: child path %sT failed (status %d)\n", s.path.c_str(), st);
      _exit(5);
    }
    s.pc.push_back("(not n" + std::to_string(id) + ")");
    s.path += "F";
    return false;
  }
  std::string term() const { return known ? (val ? "true" : "false") : "n" + std::to_string(id); }
};

// -DVSYM_FP: IEEE-754 binary64 semantics (SMT-LIB FloatingPoint, round-nearest-even) instead of reals; used for the
// small kernels whose behaviour *at* a rounding boundary is the question (innovation editing threshold)
#ifdef VSYM_FP
#define VSYM_SORT "(_ FloatingPoint 11 53)"
inline std::string fp_op(const char* op) {
  std::string o(op);
  if (o == "+") return "fp.add RNE";
  if (o == "-") return "fp.sub RNE";
  if (o == "*") return "fp.mul RNE";
  if (o == "/") return "fp.div RNE";
  if (o == ">") return "fp.gt";
  if (o == ">=") return "fp.geq";
  if (o == "<") return "fp.lt";
  if (o == "<=") return "fp.leq";
  if (o == "=") return "fp.eq";
  return o;
}
#else
#define VSYM_SORT "Real"
inline std::string fp_op(const char* op) { return op; }
#endif
inline Sym bin(const char* op, const Sym& a, const Sym& b) {
  return Sym::node(std::string("(") + fp_op(op) + " " + a.term() + " " + b.term() + ")");
}
constexpr Sym operator+(const Sym& a, const Sym& b) {
  return (a.is_const() && b.is_const()) ? Sym(a.c + b.c) : (a.is_const() && a.c == 0.0) ? b : (b.is_const() && b.c == 0.0) ? a : bin("+", a, b);
}
constexpr Sym operator-(const Sym& a, const Sym& b) {
  return (a.is_const() && b.is_const()) ? Sym(a.c - b.c) : (b.is_const() && b.c == 0.0) ? a : bin("-", a, b);
}
constexpr Sym operator*(const Sym& a, const Sym& b) {
  return (a.is_const() && b.is_const()) ? Sym(a.c * b.c)
         : ((a.is_const() && a.c == 0.0) || (b.is_const() && b.c == 0.0)) ? Sym(0.0)
         : (a.is_const() && a.c == 1.0) ? b
         : (b.is_const() && b.c == 1.0) ? a
                                        : bin("*", a, b);
}
constexpr Sym operator/(const Sym& a, const Sym& b) {
  return (a.is_const() && b.is_const()) ? Sym(a.c / b.c) : (b.is_const() && b.c == 1.0) ? a : bin("/", a, b);
}
#ifdef VSYM_FP
constexpr Sym operator-(const Sym& a) { return a.is_const() ? Sym(-a.c) : Sym::node("(fp.neg " + a.term() + ")"); }
#else
constexpr Sym operator-(const Sym& a) { return a.is_const() ? Sym(-a.c) : Sym::node("(- " + a.term() + ")"); }
#endif
constexpr Sym operator+(const Sym& a) { return a; }
inline Sym& operator+=(Sym& a, const Sym& b) { return a = a + b; }
inline Sym& operator-=(Sym& a, const Sym& b) { return a = a - b; }
inline Sym& operator*=(Sym& a, const Sym& b) { return a = a * b; }
inline Sym& operator/=(Sym& a, const Sym& b) { return a = a / b; }

inline SymBool cmp(const char* op, const Sym& a, const Sym& b) {
  return SymBool(Store::get().add(std::string("(") + fp_op(op) + " " + a.term() + " " + b.term() + ")", true), 0);
}
constexpr SymBool operator>(const Sym& a, const Sym& b) { return (a.is_const() && b.is_const()) ? SymBool(a.c > b.c) : cmp(">", a, b); }
constexpr SymBool operator>=(const Sym& a, const Sym& b) { return (a.is_const() && b.is_const()) ? SymBool(a.c >= b.c) : cmp(">=", a, b); }
constexpr SymBool operator<(const Sym& a, const Sym& b) { return (a.is_const() && b.is_const()) ? SymBool(a.c < b.c) : cmp("<", a, b); }
constexpr SymBool operator<=(const Sym& a, const Sym& b) { return (a.is_const() && b.is_const()) ? SymBool(a.c <= b.c) : cmp("<=", a, b); }
constexpr SymBool operator==(const Sym& a, const Sym& b) { return (a.is_const() && b.is_const()) ? SymBool(a.c == b.c) : cmp("=", a, b); }
inline SymBool operator!=(const Sym& a, const Sym& b) {
  if (a.is_const() && b.is_const()) return SymBool(a.c != b.c);
  return SymBool(Store::get().add("(not (" + fp_op("=") + " " + a.term() + " " + b.term() + "))", true), 0);
}
// no overloaded && / || / !: SymBool converts to bool (forking), which keeps the short-circuit semantics of the real code

inline Sym un(const char* f, const Sym& a) { return Sym::node(std::string("(uf_") + f + " " + a.term() + ")"); }
inline Sym sin(const Sym& a) { return a.is_const() ? Sym(std::sin(a.c)) : un("sin", a); }
inline Sym cos(const Sym& a) { return a.is_const() ? Sym(std::cos(a.c)) : un("cos", a); }
inline Sym tan(const Sym& a) { return a.is_const() ? Sym(std::tan(a.c)) : un("sin", a) / un("cos", a); }
inline Sym exp(const Sym& a) { return a.is_const() ? Sym(std::exp(a.c)) : un("exp", a); }
inline Sym log(const Sym& a) { return a.is_const() ? Sym(std::log(a.c)) : un("log", a); }
#ifdef VSYM_FP
inline Sym sqrt(const Sym& a) { return a.is_const() ? Sym(std::sqrt(a.c)) : Sym::node("(fp.sqrt RNE " + a.term() + ")"); }
#else
inline Sym sqrt(const Sym& a) { return a.is_const() ? Sym(std::sqrt(a.c)) : un("sqrt", a); }
#endif
inline Sym asin(const Sym& a) { return a.is_const() ? Sym(std::asin(a.c)) : un("asin", a); }
inline Sym acos(const Sym& a) { return a.is_const() ? Sym(std::acos(a.c)) : un("acos", a); }
inline Sym atan2(const Sym& y, const Sym& x) {
  if (y.is_const() && x.is_const()) return Sym(std::atan2(y.c, x.c));
  return Sym::node("(uf_atan2 " + y.term() + " " + x.term() + ")");
}
template <class T, class = typename std::enable_if<std::is_arithmetic<T>::value>::type>
inline Sym atan2(T y, const Sym& x) { return atan2(Sym(y), x); }
template <class T, class = typename std::enable_if<std::is_arithmetic<T>::value>::type>
inline Sym atan2(const Sym& y, T x) { return atan2(y, Sym(x)); }
inline Sym atan(const Sym& a) { return a.is_const() ? Sym(std::atan(a.c)) : un("atan", a); }
inline Sym sinh(const Sym& a) { return a.is_const() ? Sym(std::sinh(a.c)) : un("sinh", a); }
inline Sym cosh(const Sym& a) { return a.is_const() ? Sym(std::cosh(a.c)) : un("cosh", a); }
inline Sym tanh(const Sym& a) { return a.is_const() ? Sym(std::tanh(a.c)) : un("sinh", a) / un("cosh", a); }
inline Sym ipow(const Sym& a, long n) {
  if (n < 0) return Sym(1.0) / ipow(a, -n);
  if (n == 0) return Sym(1.0);
  Sym r = a;
  for (long i = 1; i < n; ++i) r = r * a;
  return r;
}
inline Sym pow(const Sym& a, const Sym& n) {
  if (a.is_const() && n.is_const()) return Sym(std::pow(a.c, n.c));
  if (n.is_const() && n.c == std::floor(n.c) && std::fabs(n.c) < 64) return ipow(a, (long)n.c);
  if (n.is_const() && 2 * n.c == std::floor(2 * n.c) && std::fabs(n.c) < 32) {
    long twice = (long)(2 * n.c);  // odd
    long k = (std::labs(twice) - 1) / 2;
    Sym r = sqrt(a);
    if (k) r = r * ipow(a, k);
    return twice > 0 ? r : Sym(1.0) / r;
  }
  fprintf(stderr, "vsym: unsupported pow exponent\n");
  _exit(3);
}
#ifdef VSYM_FP
inline Sym abs(const Sym& a) { return a.is_const() ? Sym(std::fabs(a.c)) : Sym::node("(fp.abs " + a.term() + ")"); }
inline Sym abs_real_unused(const Sym& a) {
#else
inline Sym abs(const Sym& a) {
#endif
  return a.is_const() ? Sym(std::fabs(a.c)) : Sym::node("(ite (>= " + a.term() + " #D0000000000000000) " + a.term() + " (- " + a.term() + "))");
}
inline Sym fabs(const Sym& a) { return abs(a); }
inline Sym floor(const Sym& a);
inline Sym ceil(const Sym& a) { return a.is_const() ? Sym(std::ceil(a.c)) : Sym::node("(- (to_real (to_int (- " + a.term() + "))))"); }
inline Sym trunc(const Sym& a) {
  if (a.is_const()) return Sym(std::trunc(a.c));
  return Sym::node("(ite (>= " + a.term() + " #D0000000000000000) (to_real (to_int " + a.term() + ")) (- (to_real (to_int (- " + a.term() + ")))))");
}
inline Sym round(const Sym& a) {  // half away from zero, as std::round
  if (a.is_const()) return Sym(std::round(a.c));
  std::string h = cstr(0.5);
  return Sym::node("(ite (>= " + a.term() + " #D0000000000000000) (to_real (to_int (+ " + a.term() + " " + h + "))) (- (to_real (to_int (+ (- " + a.term() + ") " + h + ")))))");
}
inline Sym max(const Sym& a, const Sym& b) {
  if (a.is_const() && b.is_const()) return Sym(a.c > b.c ? a.c : b.c);
  return Sym::node("(ite (>= " + a.term() + " " + b.term() + ") " + a.term() + " " + b.term() + ")");
}
inline Sym min(const Sym& a, const Sym& b) {
  if (a.is_const() && b.is_const()) return Sym(a.c < b.c ? a.c : b.c);
  return Sym::node("(ite (<= " + a.term() + " " + b.term() + ") " + a.term() + " " + b.term() + ")");
}
inline Sym fmod(const Sym& a, const Sym& b) {  // a - b * trunc(a / b), over the reals
  if (a.is_const() && b.is_const()) return Sym(std::fmod(a.c, b.c));
  return a - b * trunc(a / b);
}
template <class T, class = typename std::enable_if<std::is_arithmetic<T>::value>::type>
inline Sym fmod(const Sym& a, T b) { return fmod(a, Sym(b)); }
template <class T, class = typename std::enable_if<std::is_arithmetic<T>::value>::type>
inline Sym fmod(T a, const Sym& b) { return fmod(Sym(a), b); }
inline Sym fmax(const Sym& a, const Sym& b) { return max(a, b); }
inline Sym fmin(const Sym& a, const Sym& b) { return min(a, b); }
template <class T, class = typename std::enable_if<std::is_arithmetic<T>::value>::type>
inline Sym fmax(T a, const Sym& b) { return max(Sym(a), b); }
template <class T, class = typename std::enable_if<std::is_arithmetic<T>::value>::type>
inline Sym fmax(const Sym& a, T b) { return max(a, Sym(b)); }
template <class T, class = typename std::enable_if<std::is_arithmetic<T>::value>::type>
inline Sym fmin(T a, const Sym& b) { return min(Sym(a), b); }
template <class T, class = typename std::enable_if<std::is_arithmetic<T>::value>::type>
inline Sym fmin(const Sym& a, T b) { return min(a, Sym(b)); }
inline bool isfinite(const Sym&) { return true; }  // reals are finite (stated assumption)
inline bool isnan(const Sym&) { return false; }
#ifdef VSYM_FP
inline Sym floor(const Sym& a) { return a.is_const() ? Sym(std::floor(a.c)) : Sym::node("(fp.roundToIntegral RTN " + a.term() + ")"); }
#else
inline Sym floor(const Sym& a) { return a.is_const() ? Sym(std::floor(a.c)) : Sym::node("(to_real (to_int " + a.term() + "))"); }
#endif

inline Sym::operator size_t() const {
  if (is_const()) return (size_t)c;
  Store& s = Store::get();
  for (int k = 0; k <= s.kmax; ++k) {
    SymBool eq(s.add("(= " + term() + " " + cstr((double)k) + ")", true), 0);
    if (eq) return (size_t)k;
  }
  // beyond the bound: cut this path (recorded as a leaf file with suffix X)
  s.path += "X";
  std::string fn = s.prefix + "." + s.path + ".cut";
  FILE* f = fopen(fn.c_str(), "w");
  if (f) fclose(f);
  fflush(nullptr);
  _exit(0);
}

// n-ary uninterpreted function application (declared to the loader by the check that uses it)
inline Sym ufn(const std::string& name, std::initializer_list<Sym> args) {
  std::string t = "(" + name;
  for (auto& a : args) t += " " + a.term();
  return Sym::node(t + ")");
}

// ---- driver API
typedef Sym S;
inline S in(const std::string& name) { return Sym::input(name); }
inline S in_or(const std::string& name, double) { return Sym::input(name); }  // symbolic: an input like any other
inline void out(const std::string& name, const S& v) { Store::get().outs.emplace_back(name, v.term()); }
inline void out_bool(const std::string& name, const SymBool& v) { Store::get().outs.emplace_back("B:" + name, v.term()); }
inline void note(const std::string& what) { Store::get().notes.push_back(what); }
inline void note_val(const std::string& what, const S&) { Store::get().notes.push_back(what); }
inline void init(const char* prefix) {
  Store& s = Store::get();
  s.prefix = prefix;
  const char* k = getenv("VSYM_KMAX");
  if (k) s.kmax = atoi(k);
}
inline void finish() {
  Store& s = Store::get();
  std::string fn = s.prefix + "." + (s.path.empty() ? "_" : s.path) + ".smt2";
  FILE* f = fopen(fn.c_str(), "w");
  if (!f) {
    perror("fopen");
    _exit(6);
  }
  for (auto& d : s.decls) fprintf(f, "(declare-const %s %s)\n", d.c_str(), VSYM_SORT);
  for (size_t i = 0; i < s.defs.size(); ++i) fprintf(f, "(define-fun n%zu () %s %s)\n", i, s.is_bool[i] ? "Bool" : VSYM_SORT, s.defs[i].c_str());
  size_t k = 0;
  for (auto& p : s.pc) {
    fprintf(f, "(declare-const pc!%zu Bool)\n(assert (= pc!%zu %s))\n", k, k, p.c_str());
    ++k;
  }
  for (auto& o : s.outs) {
    bool isb = o.first.rfind("B:", 0) == 0;
    std::string nm = isb ? o.first.substr(2) : o.first;
    fprintf(f, "(declare-const out!%s %s)\n(assert (= out!%s %s))\n", nm.c_str(), isb ? "Bool" : VSYM_SORT, nm.c_str(), o.second.c_str());
  }
  for (auto& n : s.notes) fprintf(f, "; note %s\n", n.c_str());
  fclose(f);
  fflush(nullptr);
  _exit(0);  // every leaf process ends here (also the root): no destructors, no double emission
}
// matrix inverse cut-point hook (used by the Eigen stand-in)
inline int next_inverse() { return Store::get().inv_count++; }
inline S uninit() {
  return Sym::input("uninit" + std::to_string(Store::get().uninit_count++));
}
}  // namespace vsym

namespace std {
inline vsym::Sym floor(const vsym::Sym& a) { return vsym::floor(a); }
inline vsym::Sym abs(const vsym::Sym& a) { return vsym::abs(a); }
inline vsym::Sym fabs(const vsym::Sym& a) { return vsym::abs(a); }
inline vsym::Sym sqrt(const vsym::Sym& a) { return vsym::sqrt(a); }
inline vsym::Sym sin(const vsym::Sym& a) { return vsym::sin(a); }
inline vsym::Sym cos(const vsym::Sym& a) { return vsym::cos(a); }
inline vsym::Sym exp(const vsym::Sym& a) { return vsym::exp(a); }
inline vsym::Sym pow(const vsym::Sym& a, const vsym::Sym& b) { return vsym::pow(a, b); }
inline vsym::Sym ceil(const vsym::Sym& a) { return vsym::ceil(a); }
inline vsym::Sym trunc(const vsym::Sym& a) { return vsym::trunc(a); }
inline vsym::Sym fmod(const vsym::Sym& a, const vsym::Sym& b) { return vsym::fmod(a, b); }
inline vsym::Sym round(const vsym::Sym& a) { return vsym::round(a); }
inline vsym::Sym max(const vsym::Sym& a, const vsym::Sym& b) { return vsym::max(a, b); }
inline vsym::Sym min(const vsym::Sym& a, const vsym::Sym& b) { return vsym::min(a, b); }
inline vsym::Sym fmax(const vsym::Sym& a, const vsym::Sym& b) { return vsym::max(a, b); }
inline vsym::Sym fmin(const vsym::Sym& a, const vsym::Sym& b) { return vsym::min(a, b); }
inline bool isfinite(const vsym::Sym&) { return true; }
inline bool isnan(const vsym::Sym&) { return false; }
}  // namespace std

#else  // ------------------------------------------------------------------ VSYM_CONCRETE (replay twin)

namespace vsym {
typedef double S;
struct CStore {
  std::map<std::string, double> inputs;
  int inv_count = 0;
  static CStore& get() {
    static CStore s;
    return s;
  }
};
inline void init(const char* inputs_file) {
  FILE* f = fopen(inputs_file, "r");
  if (!f) {
    perror("inputs");
    exit(6);
  }
  char name[256];
  double v;
  while (fscanf(f, "%255s %lf", name, &v) == 2) CStore::get().inputs[name] = v;
  fclose(f);
}
inline S in(const std::string& name) {
  auto it = CStore::get().inputs.find(name);
  if (it == CStore::get().inputs.end()) {
    fprintf(stderr, "vsym: missing input %s\n", name.c_str());
    exit(7);
  }
  return it->second;
}
inline S in_or(const std::string& name, S dflt) {  // warm-up inputs: a default when the replay does not name them
  auto it = CStore::get().inputs.find(name);
  return it == CStore::get().inputs.end() ? dflt : it->second;
}
inline void out(const std::string& name, S v) { printf("out %s %.17g\n", name.c_str(), v); }
inline void out_bool(const std::string& name, bool v) { printf("outb %s %d\n", name.c_str(), v ? 1 : 0); }
inline void note(const std::string& what) { printf("note %s\n", what.c_str()); }
inline void note_val(const std::string& what, S v) { printf("note %s %.17g\n", what.c_str(), v); }
inline void finish() {
  fflush(nullptr);
  exit(0);
}
inline int next_inverse() { return CStore::get().inv_count++; }
inline S uninit() { return std::nan(""); }
inline S ufn(const std::string&, std::initializer_list<S>) { return 0.0; }
}  // namespace vsym
#endif
