"""C++ driver text for a corpus program.  Inputs enter through the *named* generated interfaces
(StateOptions{...} -> State(options), ControlOptions, CalibrationOptions, <Reading>Options) and results are read
through the *named* accessors, so constructor order and accessor indices are inside the checked code.
Matrices (Jacobians, covariances) have no named access; they are read by (row, col) index, which the Python side
interprets with its own sorted-name order."""
from __future__ import annotations


def tname(key):
    return key.title()


def _call_args(p, first, *, cal=True, ctl=True):
    a = list(first)
    if p.calibration and cal:
        a.append("cal")
    if p.control and ctl:
        a.append("ctl")
    return ", ".join(a)


def common_helpers(p, ns="gen", ekf=True):
    ss, sc, sk = p.s_state(), p.s_control(), p.s_calibration()
    L = [f"namespace G = {ns};", "static S IN(const std::string& n) { return vsym::in(n); }"]
    L.append("static G::State mkState(const std::string& pfx = \"\") { G::StateOptions o;")
    for s in p.state:  # declaration order on purpose
        L.append(f"  o.{s} = IN(pfx + \"{s}\");")
    L.append("  return G::State(o); }")
    L.append("static void outState(const std::string& pfx, const G::State& s) {")
    for s in ss:
        L.append(f"  vsym::out(pfx + \"{s}\", s.{s}());")
    L.append("}")
    if p.control:
        L.append("static G::Control mkControl() { G::ControlOptions o;")
        for c in p.control:
            L.append(f"  o.{c} = IN(\"{c}\");")
        L.append("  return G::Control(o); }")
    if p.calibration:
        L.append("static G::Calibration mkCal() { G::CalibrationOptions o;")
        for c in p.calibration:
            L.append(f"  o.{c} = IN(\"{c}\");")
        L.append("  return G::Calibration(o); }")
    # warm-up objects (history dimension of the generated functions: an earlier call with OTHER state, control and
    # calibration values must not influence a later one - e.g. function-local statics)
    L.append("static G::State mkStateW() { G::StateOptions o;")
    for i, s in enumerate(p.state):
        L.append(f"  o.{s} = vsym::in_or(\"{s}__w\", {0.4375 + 0.25 * i});")
    L.append("  return G::State(o); }")
    if p.control:
        L.append("static G::Control mkControlW() { G::ControlOptions o;")
        for i, c in enumerate(p.control):
            L.append(f"  o.{c} = vsym::in_or(\"{c}__w\", {-0.3125 + 0.5 * i});")
        L.append("  return G::Control(o); }")
    if p.calibration:
        L.append("static G::Calibration mkCalW() { G::CalibrationOptions o;")
        for i, c in enumerate(p.calibration):
            L.append(f"  o.{c} = vsym::in_or(\"{c}__w\", {0.8125 + 0.375 * i});")
        L.append("  return G::Calibration(o); }")
    if ekf:
        n = len(ss)
        L.append("static G::Covariance mkCov() { G::Covariance c;")
        for i in range(n):
            for j in range(n):
                a, b = (ss[i], ss[j]) if i <= j else (ss[j], ss[i])
                L.append(f"  c.data({i}, {j}) = IN(\"P_{a}_{b}\");")
        L.append("  return c; }")
        L.append("static void outCov(const std::string& pfx, const G::Covariance& c) {")
        for i in range(n):
            for j in range(n):
                L.append(f"  vsym::out(pfx + \"_{i}_{j}\", c.data({i}, {j}));")
        for s in ss:
            L.append(f"  vsym::out(pfx + \"diag_{s}\", c.{s}());")
        L.append("}")
        for key in p.s_sensors():
            T = tname(key)
            L.append(f"static G::{T} mkReading_{key}() {{ G::{T}Options o;")
            for r in p.sensors[key]:
                L.append(f"  o.{r} = IN(\"z_{key}_{r}\");")
            L.append(f"  return G::{T}(o); }}")
    return "\n".join(L) + "\n"


def ekf_driver(p, ns="gen"):
    ss, sc = p.s_state(), p.s_control()
    n, nc = len(ss), len(sc)
    L = [common_helpers(p, ns, ekf=True)]
    L.append("int main(int argc, char** argv) {")
    L.append("  vsym::init(argv[1]); std::string sc = argc > 2 ? argv[2] : \"\";")
    L.append("  G::StateAndVariance sv; sv.state = mkState(); sv.covariance = mkCov();")
    L.append("  S dt = IN(\"dt\");")
    if p.control:
        L.append("  G::Control ctl = mkControl();")
    if p.calibration:
        L.append("  G::Calibration cal = mkCal();")
    pa = _call_args(p, ["dt", "sv"])
    # --- process model pieces
    # warm-up: the same functions are first called with other values (results discarded)
    warm_args = ["dtw", "svw"] + (["calw"] if p.calibration else []) + (["ctlw"] if p.control else [])
    wa = ", ".join(warm_args)
    L.append("  G::StateAndVariance svw; svw.state = mkStateW(); svw.covariance = G::Covariance();")
    L.append("  S dtw = vsym::in_or(\"dt__w\", 0.21875);")
    if p.control:
        L.append("  G::Control ctlw = mkControlW();")
    if p.calibration:
        L.append("  G::Calibration calw = mkCalW();")
    L.append("  if (sc == \"pm\") {")
    L.append(f"    {{ auto w0 = G::ExtendedKalmanFilterProcessModel::model({wa}); auto w1 = G::ExtendedKalmanFilterProcessModel::process_jacobian({wa}); auto w2 = G::ExtendedKalmanFilterProcessModel::control_jacobian({wa}); (void)w0; (void)w1; (void)w2; }}")
    L.append(f"    G::State f = G::ExtendedKalmanFilterProcessModel::model({pa}); outState(\"f_\", f);")
    L.append(f"    auto Gm = G::ExtendedKalmanFilterProcessModel::process_jacobian({pa});")
    for i in range(n):
        for j in range(n):
            L.append(f"    vsym::out(\"G_{i}_{j}\", Gm({i}, {j}));")
    L.append(f"    auto Vm = G::ExtendedKalmanFilterProcessModel::control_jacobian({pa});")
    for i in range(n):
        for j in range(nc):
            L.append(f"    vsym::out(\"V_{i}_{j}\", Vm({i}, {j}));")
    L.append(f"    auto Mm = G::ExtendedKalmanFilterProcessModel::covariance({pa});")
    for i in range(nc):
        for j in range(nc):
            L.append(f"    vsym::out(\"M_{i}_{j}\", Mm({i}, {j}));")
    L.append("  }")
    # --- default-constructed objects and named diag accessors
    L.append("  if (sc == \"defaults\") {")
    L.append("    G::State s0; outState(\"s0_\", s0); G::Covariance c0; outCov(\"c0\", c0);")
    L.append("    G::StateOptions so; G::State s1(so); outState(\"s1_\", s1);")
    # "defaults the rest": an Options object that is default-initialised over dirty memory and filled member by member
    # (placement new over 0xFF bytes: a member without an initialiser shows as NaN in the plain-double build)
    L.append("    { alignas(G::StateOptions) unsigned char buf[sizeof(G::StateOptions)]; memset(buf, 0xFF, sizeof buf);")
    L.append("      G::StateOptions* o = new (buf) G::StateOptions; G::State s2(*o); outState(\"s2_\", s2); }")
    for key in p.s_sensors():
        T = tname(key)
        L.append(f"    {{ alignas(G::{T}Options) unsigned char buf[sizeof(G::{T}Options)]; memset(buf, 0xFF, sizeof buf);")
        L.append(f"      G::{T}Options* o = new (buf) G::{T}Options; G::{T} r0(*o);")
        for r in p.s_readings(key):
            L.append(f"      vsym::out(\"r0_{key}_{r}\", r0.{r}());")
        L.append("    }")
    L.append("  }")
    # --- sensor model pieces
    for key in p.s_sensors():
        T = tname(key)
        rs = p.s_readings(key)
        m = len(rs)
        ra = _call_args(p, ["sv"], ctl=False) + ", rd"
        L.append(f"  if (sc == \"sm:{key}\") {{")
        L.append(f"    G::{T} rd = mkReading_{key}();")
        wra = ", ".join(["svw"] + (["calw"] if p.calibration else []) + ["rd"])
        L.append(f"    {{ auto w0 = G::{T}SensorModel::model({wra}); auto w1 = G::{T}SensorModel::jacobian({wra}); (void)w0; (void)w1; }}")
        L.append(f"    G::{T} h = G::{T}SensorModel::model({ra});")
        for r in rs:
            L.append(f"    vsym::out(\"h_{r}\", h.{r}());")
        L.append(f"    auto H = G::{T}SensorModel::jacobian({ra});")
        for i in range(m):
            for j in range(n):
                L.append(f"    vsym::out(\"H_{i}_{j}\", H({i}, {j}));")
        L.append(f"    auto Q = G::{T}SensorModel::covariance({ra});")
        for i in range(m):
            for j in range(m):
                L.append(f"    vsym::out(\"Q_{i}_{j}\", Q({i}, {j}));")
        L.append(f"    G::{T} rd2 = rd;")
        for r in rs:
            L.append(f"    vsym::out(\"rd_{r}\", rd2.{r}());")
        L.append(f"    vsym::out(\"size\", S((double)G::{T}::size));")
        L.append("  }")
    # --- filter steps
    L.append("  if (sc == \"predict\") {")
    L.append("    G::ExtendedKalmanFilter ekf;")
    L.append(f"    G::StateAndVariance r = ekf.process_model({pa}); outState(\"x_\", r.state); outCov(\"P\", r.covariance);")
    L.append("  }")
    for key in p.s_sensors():
        T = tname(key)
        rs = p.s_readings(key)
        ua = _call_args(p, ["sv"], ctl=False) + ", rd"
        L.append(f"  if (sc == \"update:{key}\") {{")
        L.append("    G::ExtendedKalmanFilter ekf;")
        L.append(f"    G::{T} rd = mkReading_{key}();")
        L.append(f"    G::StateAndVariance r = ekf.sensor_model({ua}); outState(\"x_\", r.state); outCov(\"P\", r.covariance);")
        L.append(f"    auto inn = ekf.innovations<G::{T}>();")
        L.append("    if (inn.has_value()) {")
        for i, r in enumerate(rs):
            L.append(f"      vsym::out(\"innov_{key}_{r}\", (*inn)({i}, 0));")
        L.append(f"    }} else {{ vsym::note(\"innovation_missing_{key}\"); }}")
        L.append("  }")
    # --- every sensor updated once on the same filter object (each from the same prior), then the first sensor once
    #     more with a second reading; innovations read back afterwards; state/covariance of the last update reported
    L.append("  if (sc == \"seq\") {")
    L.append("    G::ExtendedKalmanFilter ekf; G::StateAndVariance last = sv;")
    keys = p.s_sensors()
    for key in keys:
        T = tname(key)
        ua = _call_args(p, ["sv"], ctl=False) + f", rd_{key}"
        L.append(f"    G::{T} rd_{key} = mkReading_{key}(); last = ekf.sensor_model({ua});")
    if keys:
        key = keys[0]
        T = tname(key)
        L.append(f"    G::{T}Options ob;")
        for r in p.sensors[key]:
            L.append(f"    ob.{r} = IN(\"zb_{key}_{r}\");")
        ua = _call_args(p, ["sv"], ctl=False) + ", rdb"
        L.append(f"    G::{T} rdb(ob); last = ekf.sensor_model({ua});")
    L.append("    outState(\"x_\", last.state); outCov(\"P\", last.covariance);")
    for key in keys:
        T = tname(key)
        rs = p.s_readings(key)
        L.append(f"    {{ auto inn = ekf.innovations<G::{T}>(); if (inn.has_value()) {{")
        for i, r in enumerate(rs):
            L.append(f"      vsym::out(\"innov_{key}_{r}\", (*inn)({i}, 0));")
        L.append(f"    }} else {{ vsym::note(\"innovation_missing_{key}\"); }} }}")
    L.append("  }")
    L.append("  vsym::finish();\n}")
    return "\n".join(L) + "\n"


def model_driver(p, ns="gen"):
    L = [common_helpers(p, ns, ekf=False)]
    L.append("int main(int argc, char** argv) {")
    L.append("  vsym::init(argv[1]);")
    L.append("  G::State st = mkState(); S dt = IN(\"dt\");")
    if p.control:
        L.append("  G::Control ctl = mkControl();")
    if p.calibration:
        L.append("  G::Calibration cal = mkCal();")
    L.append(f"  G::Model m; G::State f = m.model({_call_args(p, ['dt', 'st'])}); outState(\"f_\", f);")
    L.append("  vsym::finish();\n}")
    return "\n".join(L) + "\n"
