"""Stand-in Impl + driver for running the real ManagedFilter.h symbolically (C10, C11)."""
from __future__ import annotations

STANDIN = r"""
#pragma once
// Stand-in filter for ManagedFilter<Impl>: records every process_model dt (C10) and returns nested
// uninterpreted-function terms (C11: the term is the call trace).  `double` is vsym::Sym here.
namespace standin {
inline int& counter() { static int c = 0; return c; }
struct Impl;
struct StateAndVariance { vsym::S state = 0.0; vsym::S covariance = 0.0; };
#if HAS_CONTROL
struct Control { vsym::S u = 0.0; };
#endif
#if HAS_CAL
struct Calibration { vsym::S c = 0.0; };
#endif
struct StampedReadingBase {
  virtual ~StampedReadingBase() = default;
  virtual StateAndVariance sensor_model(const Impl& impl, const StateAndVariance& sv
#if HAS_CAL
    , const Calibration& cal
#endif
  ) const = 0;
};
struct Impl {
  struct Tag {
    using StateAndVarianceT = StateAndVariance;
#if HAS_CAL
    using CalibrationT = Calibration;
#else
    using CalibrationT = std::false_type;
#endif
#if HAS_CONTROL
    using ControlT = Control;
#else
    using ControlT = std::false_type;
#endif
    using StampedReadingBaseT = StampedReadingBase;
    static constexpr double max_dt_sec = MAXDT;
  };
  StateAndVariance process_model(double dt, const StateAndVariance& sv
#if HAS_CAL
    , const Calibration& cal
#endif
#if HAS_CONTROL
    , const Control& ctl
#endif
  ) const {
    int k = counter()++;
    vsym::out("dt" + std::to_string(k), dt);
    vsym::note_val("P", dt);
#if HAS_CONTROL
    vsym::S c = ctl.u;
#else
    vsym::S c = 0.0;
#endif
    StateAndVariance r;
    r.state = vsym::ufn("FpS", {sv.state, sv.covariance, dt, c});
    r.covariance = vsym::ufn("FpP", {sv.state, sv.covariance, dt, c});
    return r;
  }
};
struct Reading : StampedReadingBase {
  vsym::S v; vsym::S sid;
  Reading(vsym::S v_, vsym::S sid_) : v(v_), sid(sid_) {}
  StateAndVariance sensor_model(const Impl& impl, const StateAndVariance& sv
#if HAS_CAL
    , const Calibration& cal
#endif
  ) const override {
    int k = counter()++;
    vsym::out("sens" + std::to_string(k), vsym::S(1.0));
    vsym::note_val("S", sid); vsym::note_val("V", v);
    StateAndVariance r;
    r.state = vsym::ufn("FsS", {sv.state, sv.covariance, sid, v});
    r.covariance = vsym::ufn("FsP", {sv.state, sv.covariance, sid, v});
    return r;
  }
};
}  // namespace standin
"""

MAIN = r"""
using MF = formak::runtime::ManagedFilter<standin::Impl>;
static_assert(MF::compatible, "stand-in must pass the compatibility check");
int main(int argc, char** argv) {
  vsym::init(argv[1]);
  S t0 = vsym::in("t0"), outt = vsym::in("out");
  standin::StateAndVariance init; init.state = vsym::in("s0"); init.covariance = vsym::in("P0");
#if HAS_CAL
  standin::Calibration cal; cal.c = vsym::in("cal");
  MF mf(t0, init, cal);
#else
  MF mf(t0, init);
#endif
#if HAS_CONTROL
  standin::Control ctl; ctl.u = vsym::in("u");
#endif
  const double sids[] = {SIDS 0};
  std::vector<MF::StampedReading> rds;
  for (int i = 0; i < NREADINGS; ++i)
    rds.push_back(MF::wrap(vsym::in("ts" + std::to_string(i)), standin::Reading(vsym::in("v" + std::to_string(i)), S(sids[i]))));
#if USE_READINGS_OVERLOAD
#if HAS_CONTROL
  auto r = mf.tick(outt, ctl, rds);
#else
  auto r = mf.tick(outt, rds);
#endif
#else
#if HAS_CONTROL
  auto r = mf.tick(outt, ctl);
#else
  auto r = mf.tick(outt);
#endif
#endif
  vsym::out("ret_state", r.state); vsym::out("ret_cov", r.covariance);
  vsym::out("held_time", mf._state.currentTime);
  vsym::out("held_state", mf._state.state.state); vsym::out("held_cov", mf._state.state.covariance);
  vsym::out("ncalls", S((double)standin::counter()));
  vsym::finish();
}
"""

# a driver that must NOT compile: control-free tick on an Impl that has control inputs
NEGATIVE_MAIN = r"""
using MF = formak::runtime::ManagedFilter<standin::Impl>;
int main(int argc, char** argv) {
  vsym::init(argv[1]);
  standin::StateAndVariance init;
#if HAS_CAL
  standin::Calibration cal; MF mf(S(0.0), init, cal);
#else
  MF mf(S(0.0), init);
#endif
#if NEG_READINGS
  std::vector<MF::StampedReading> rds;
  auto r = mf.tick(S(1.0), rds);
#else
  auto r = mf.tick(S(1.0));
#endif
  vsym::out("ret_state", r.state);
  vsym::finish();
}
"""

INCLUDES = ['#include "standin_impl.h"', "#define private public", "#include <formak/runtime/ManagedFilter.h>", "#undef private"]

UF_DECLS = "".join(f"(declare-fun {n} (Real Real Real Real) Real)\n" for n in ("FpS", "FpP", "FsS", "FsP"))


def flags(*, control, cal, max_dt, sids=(), use_readings=None, neg_readings=False):
    if use_readings is None:
        use_readings = len(sids) > 0
    return [
        f"-DHAS_CONTROL={int(control)}",
        f"-DHAS_CAL={int(cal)}",
        f"-DMAXDT={max_dt!r}",
        f"-DNREADINGS={len(sids)}",
        "-DSIDS=" + "".join(f"{float(s)!r}," for s in sids),
        f"-DUSE_READINGS_OVERLOAD={int(bool(use_readings))}",
        f"-DNEG_READINGS={int(neg_readings)}",
    ]


def write_standin(outdir):
    import os

    with open(os.path.join(outdir, "standin_impl.h"), "w") as f:
        f.write(STANDIN)
