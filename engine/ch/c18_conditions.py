"""CrossHair (PEP316) conditions for C18 over the real formak.ui_state_machine classes.

Every condition `c_*` must be "Confirmed over all paths"; every twin `t_*` must be REFUTED (reachability witness:
its postcondition is the negation of something the body always establishes).  Cuts (stated in the evidence):
FitModelState._fit_model_impl is replaced by a no-op for the *transition/history* conditions (it runs scikit-learn);
for the minimum-sample guard, train_test_split is replaced by a sentinel so that everything after the guard is cut.
"""
import inspect
from typing import List

import formak.ui_state_machine as sm
from formak.exceptions import ModelFitError
from formak.ui_state_machine import DesignManager, FitModelState, StateId, StateMachineState, SymbolicModelState

CLASSES = [DesignManager, SymbolicModelState, FitModelState]


def _cls(idx: int):
    # explicit branches: a symbolic index must not produce a symbolic class object
    if idx == 0:
        return DesignManager
    if idx == 1:
        return SymbolicModelState
    return FitModelState


def _instance(idx: int, history: List[StateId]):
    cls = _cls(idx)
    obj = object.__new__(cls)  # no transition is taken to obtain the instance
    StateMachineState.__init__(obj, "n", list(history))
    return obj


def _graph():
    """Declared transitions, read from the classes: {state id: {transition name: target state id}}"""
    g = {}
    for cls in CLASSES:
        g[cls.state_id()] = {}
        for name in cls.available_transitions():
            g[cls.state_id()][name] = inspect.signature(getattr(cls, name)).return_annotation.state_id()
    return g


def _distance(src: StateId, dst: StateId):
    g = _graph()
    dist = {src: 0}
    frontier = [src]
    while frontier:
        nxt = []
        for s in frontier:
            for t in g[s].values():
                if t not in dist:
                    dist[t] = dist[s] + 1
                    nxt.append(t)
        frontier = nxt
    return dist.get(dst)


def _follow(start_cls, names):
    cls = start_cls
    for n in names:
        if n not in cls.available_transitions():
            return None
        cls = inspect.signature(getattr(cls, n)).return_annotation
    return cls


def _search_verdict(start: int, target: StateId) -> bool:
    obj = _instance(start, [])
    want = _distance(_cls(start).state_id(), target)
    try:
        path = obj.search(target, debug=False)
    except ValueError:
        return want is None  # raising is right exactly when the target is unreachable
    if want is None:
        return False
    if not isinstance(path, list) or not all(isinstance(n, str) for n in path):
        return False
    end = _follow(_cls(start), path)
    return end is not None and end.state_id() == target and len(path) == want


def c_search(start: int, target: StateId) -> bool:
    """
    pre: 0 <= start <= 2
    post: _
    """
    return _search_verdict(start, target)


def t_search(start: int, target: StateId) -> bool:
    """
    pre: 0 <= start <= 2
    post: not _
    """
    return _search_verdict(start, target)


def _search_twice_verdict(first: int, second: int, target: StateId) -> bool:
    """History dimension: an earlier search (from any state, same target) must not influence a later one."""
    try:
        _instance(first, []).search(target, debug=False)
    except ValueError:
        pass
    return _search_verdict(second, target)


def c_search_twice(first: int, second: int, target: StateId) -> bool:
    """
    pre: 0 <= first <= 2
    pre: 0 <= second <= 2
    post: _
    """
    return _search_twice_verdict(first, second, target)


def t_search_twice(first: int, second: int, target: StateId) -> bool:
    """
    pre: 0 <= first <= 2
    pre: 0 <= second <= 2
    post: not _
    """
    return _search_twice_verdict(first, second, target)


def c_search_not_a_state_id(start: int, target: int) -> bool:
    """
    pre: 0 <= start <= 2
    post: _
    """
    try:
        _instance(start, []).search(target, debug=False)
    except ValueError:
        return True
    return False


def t_search_not_a_state_id(start: int, target: int) -> bool:
    """
    pre: 0 <= start <= 2
    post: not _
    """
    try:
        _instance(start, []).search(target, debug=False)
    except ValueError:
        return True
    return False


def c_search_string_target(start: int, target: str) -> bool:
    """
    pre: 0 <= start <= 2
    pre: len(target) <= 3
    post: _
    """
    try:
        _instance(start, []).search(target, debug=False)
    except ValueError:
        return True
    return False


def _history_start(name: str) -> bool:
    d = DesignManager(name)
    return d.history() == [StateId.Start] and d.state_id() == StateId.Start and d.available_transitions() == ["symbolic_model"]


def c_history_start(name: str) -> bool:
    """
    pre: len(name) <= 2
    post: _
    """
    return _history_start(name)


def _history_step_symbolic(prev: List[StateId]) -> bool:
    s = _instance(0, prev)
    before = list(s.history())
    nxt = s.symbolic_model(model=None)
    return isinstance(nxt, SymbolicModelState) and nxt.history() == before + [StateId.Symbolic_Model] and s.history() == before and before == list(prev)


def c_history_step_symbolic(prev: List[StateId]) -> bool:
    """
    pre: len(prev) <= 4
    post: _
    """
    return _history_step_symbolic(prev)


def t_history_step_symbolic(prev: List[StateId]) -> bool:
    """
    pre: len(prev) <= 4
    post: not _
    """
    return _history_step_symbolic(prev)


def _history_step_fit(prev: List[StateId]) -> bool:
    saved = FitModelState._fit_model_impl
    FitModelState._fit_model_impl = lambda self, **kw: None  # cut: scikit-learn wrangling
    try:
        s = _instance(1, prev)
        s.model = None
        before = list(s.history())
        nxt = s.fit_model(parameter_space={}, data=[0, 0, 0])
        return isinstance(nxt, FitModelState) and nxt.history() == before + [StateId.Fit_Model] and s.history() == before and nxt.available_transitions() == []
    finally:
        FitModelState._fit_model_impl = saved


def c_history_step_fit(prev: List[StateId]) -> bool:
    """
    pre: len(prev) <= 4
    post: _
    """
    return _history_step_fit(prev)


def t_history_step_fit(prev: List[StateId]) -> bool:
    """
    pre: len(prev) <= 4
    post: not _
    """
    return _history_step_fit(prev)


class _PastGuard(Exception):
    pass


class _PastGuardError(_PastGuard, ValueError):
    """what a splitter raises on too little data is a ValueError; the sentinel's signal must be distinguishable"""


def _min_samples(data: List[int], strategy=None) -> bool:
    """ModelFitError iff fewer than 3 samples (everything after the guard is cut by the sentinel)."""

    def sentinel(*a, **k):
        raise _PastGuard()

    saved = sm.train_test_split
    sm.train_test_split = sentinel
    try:
        obj = object.__new__(FitModelState)
        obj.cross_validation_strategy = strategy
        obj.data = data
        obj.parameter_space = {}
        obj.scoring = None
        try:
            obj._fit_model_impl()
        except ModelFitError:
            return len(data) < 3
        except _PastGuard:
            return len(data) >= 3
        return False
    finally:
        sm.train_test_split = saved


def c_min_samples(data: List[int]) -> bool:
    """
    pre: len(data) <= 6
    post: _
    """
    return _min_samples(data)


def t_min_samples(data: List[int]) -> bool:
    """
    pre: len(data) <= 6
    post: not _
    """
    return _min_samples(data)


def c_min_samples_rows(data: List[List[int]]) -> bool:
    """
    pre: len(data) <= 4 and all(len(r) == 2 for r in data)
    post: _
    """
    return _min_samples(data)


def t_min_samples_rows(data: List[List[int]]) -> bool:
    """
    pre: len(data) <= 4 and all(len(r) == 2 for r in data)
    post: not _
    """
    return _min_samples(data)


class _AnyStrategy:
    """a user-supplied cross-validation strategy object (its behaviour is cut by the sentinels)"""

    def split(self, *a, **k):
        raise _PastGuard()

    def get_n_splits(self, *a, **k):
        return 2


def c_min_samples_with_strategy(data: List[int]) -> bool:
    """
    pre: len(data) <= 5
    post: _
    """
    return _min_samples(data, _AnyStrategy())


def t_min_samples_with_strategy(data: List[int]) -> bool:
    """
    pre: len(data) <= 5
    post: not _
    """
    return _min_samples(data, _AnyStrategy())
