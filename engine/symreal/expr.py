"""Harness-side expression algebra: the corpus programs are written once in this tiny AST and then
   - rendered to sympy   (what FormaK receives),
   - rendered to z3      (the specification; the same UFs as the engine),
   - evaluated in floats (replay / encoding validation),
   - differentiated by `diff` below (own differentiator: neither sympy.diff nor Matrix.jacobian).
"""
from __future__ import annotations

import math
from fractions import Fraction

import z3

from .core import qval, uf


class E:
    __slots__ = ("op", "args")

    def __init__(self, op, *args):
        self.op = op
        self.args = args

    # construction sugar
    def __add__(a, b):
        return add(a, b)

    def __radd__(a, b):
        return add(b, a)

    def __sub__(a, b):
        return add(a, neg(wrap(b)))

    def __rsub__(a, b):
        return add(b, neg(a))

    def __mul__(a, b):
        return mul(a, b)

    def __rmul__(a, b):
        return mul(b, a)

    def __truediv__(a, b):
        return div(a, b)

    def __rtruediv__(a, b):
        return div(b, a)

    def __neg__(a):
        return neg(a)

    def __pow__(a, n):
        return powi(a, n)

    def __repr__(self):
        if self.op == "c":
            return repr(self.args[0])
        if self.op == "v":
            return self.args[0]
        return f"{self.op}({', '.join(map(repr, self.args))})"

    def free(self):
        if self.op == "v":
            return {self.args[0]}
        if self.op in ("c", "k"):
            return set()
        out = set()
        for a in self.args:
            if isinstance(a, E):
                out |= a.free()
        return out


def wrap(x):
    if isinstance(x, E):
        return x
    if isinstance(x, (int, float, Fraction)) and not isinstance(x, bool):
        return E("c", x)
    raise TypeError(type(x))


def C(x):
    return E("c", x)


def V(name):
    return E("v", name)


def is_c(e, val=None):
    return e.op == "c" and (val is None or e.args[0] == val)


def add(a, b):
    a, b = wrap(a), wrap(b)
    if is_c(a, 0):
        return b
    if is_c(b, 0):
        return a
    return E("+", a, b)


def neg(a):
    a = wrap(a)
    if a.op == "c":
        return C(-a.args[0])
    return E("neg", a)


def mul(a, b):
    a, b = wrap(a), wrap(b)
    if is_c(a, 0) or is_c(b, 0):
        return C(0)
    if is_c(a, 1):
        return b
    if is_c(b, 1):
        return a
    return E("*", a, b)


def div(a, b):
    a, b = wrap(a), wrap(b)
    if is_c(a, 0):
        return C(0)
    if is_c(b, 1):
        return a
    return E("/", a, b)


def powi(a, n):
    a = wrap(a)
    assert isinstance(n, int)
    if n == 0:
        return C(1)
    if n == 1:
        return a
    return E("pow", a, n)


def fn(name, a):
    return E("fn", name, wrap(a))


def sin(a):
    return fn("sin", a)


def cos(a):
    return fn("cos", a)


def exp(a):
    return fn("exp", a)


def sqrt(a):
    return fn("sqrt", a)


def tan(a):
    # FormaK receives a genuine sympy.tan; the z3 rendering is sin/cos (the engines' convention), so an
    # implementation that rewrites tan <-> sin/cos is still proved equal
    return fn("tan", a)


def sec(a):
    return fn("sec", a)


def csc(a):
    return fn("csc", a)


def cot(a):
    return fn("cot", a)


def atan(a):
    return fn("atan", a)


def asin(a):
    return fn("asin", a)


def acos(a):
    return fn("acos", a)


def log(a):
    return fn("log", a)


def absv(a):
    return fn("abs", a)


def atan2(y, x):
    return E("atan2", wrap(y), wrap(x))


PI = E("k", "pi")  # the symbolic constant pi (sympy.pi on FormaK's side; the double M_PI / numpy.pi in the specification)


def maxv(a, b):
    return E("max", wrap(a), wrap(b))


def minv(a, b):
    return E("min", wrap(a), wrap(b))


def pw(c, a, b):
    """a if c > 0 else b   (sympy: Piecewise((a, c > 0), (b, True)))."""
    return E("pw", wrap(c), wrap(a), wrap(b))


# ----------------------------------------------------------------------------- differentiation


def diff(e: E, x: str) -> E:
    op = e.op
    if op in ("c", "k"):
        return C(0)
    if op == "v":
        return C(1) if e.args[0] == x else C(0)
    if op == "sgnmul":
        return E("sgnmul", e.args[0], diff(e.args[1], x))  # away from the kink the factor sign(a) is constant
    if op == "atan2":
        y, x_ = e.args
        return div(add(mul(x_, diff(y, x)), neg(mul(y, diff(x_, x)))), add(mul(x_, x_), mul(y, y)))
    if op == "pw":  # away from the switching surface c == 0 (callers exclude it)
        return pw(e.args[0], diff(e.args[1], x), diff(e.args[2], x))
    if op == "max":
        return pw(add(e.args[0], neg(e.args[1])), diff(e.args[0], x), diff(e.args[1], x))
    if op == "min":
        return pw(add(e.args[0], neg(e.args[1])), diff(e.args[1], x), diff(e.args[0], x))
    if op == "+":
        return add(diff(e.args[0], x), diff(e.args[1], x))
    if op == "neg":
        return neg(diff(e.args[0], x))
    if op == "*":
        a, b = e.args
        return add(mul(diff(a, x), b), mul(a, diff(b, x)))
    if op == "/":
        a, b = e.args
        da, db = diff(a, x), diff(b, x)
        # (da*b - a*db)/b^2
        return div(add(mul(da, b), neg(mul(a, db))), mul(b, b))
    if op == "pow":
        a, n = e.args
        da = diff(a, x)
        if n < 0:
            # a^n = 1/a^-n
            return diff(div(C(1), powi(a, -n)), x)
        return mul(mul(C(n), powi(a, n - 1)), da)
    if op == "fn":
        name, a = e.args
        da = diff(a, x)
        if name == "sin":
            return mul(cos(a), da)
        if name == "cos":
            return mul(neg(sin(a)), da)
        if name == "exp":
            return mul(exp(a), da)
        if name == "sqrt":
            return div(da, mul(C(2), sqrt(a)))
        if name == "tan":
            return mul(add(C(1), mul(tan(a), tan(a))), da)
        if name == "sec":
            return mul(div(sin(a), mul(cos(a), cos(a))), da)
        if name == "csc":
            return neg(mul(div(cos(a), mul(sin(a), sin(a))), da))
        if name == "cot":
            return neg(div(da, mul(sin(a), sin(a))))
        if name == "abs":  # sign(a) * da; undefined at a == 0 (recorded as a domain condition by to_z3)
            return E("sgnmul", a, da)
        if name == "atan":
            return div(da, add(C(1), mul(a, a)))
        if name == "asin":
            return div(da, sqrt(add(C(1), neg(mul(a, a)))))
        if name == "acos":
            return neg(div(da, sqrt(add(C(1), neg(mul(a, a))))))
        if name == "log":
            return div(da, a)
        raise NotImplementedError(name)
    raise NotImplementedError(op)


# ----------------------------------------------------------------------------- renderings


def to_sympy(e: E, symtab):
    import sympy

    op = e.op
    if op == "c":
        v = e.args[0]
        if isinstance(v, Fraction):
            return sympy.Rational(v.numerator, v.denominator)
        if isinstance(v, int):
            return sympy.Integer(v)
        return sympy.Float(v)
    if op == "v":
        return symtab[e.args[0]]
    if op == "atan2":
        return sympy.atan2(to_sympy(e.args[0], symtab), to_sympy(e.args[1], symtab))
    if op == "k":
        return sympy.pi
    if op == "max":
        return sympy.Max(to_sympy(e.args[0], symtab), to_sympy(e.args[1], symtab))
    if op == "min":
        return sympy.Min(to_sympy(e.args[0], symtab), to_sympy(e.args[1], symtab))
    if op == "pw":
        return sympy.Piecewise((to_sympy(e.args[1], symtab), to_sympy(e.args[0], symtab) > 0), (to_sympy(e.args[2], symtab), True))
    if op == "+":
        return to_sympy(e.args[0], symtab) + to_sympy(e.args[1], symtab)
    if op == "neg":
        return -to_sympy(e.args[0], symtab)
    if op == "*":
        return to_sympy(e.args[0], symtab) * to_sympy(e.args[1], symtab)
    if op == "/":
        return to_sympy(e.args[0], symtab) / to_sympy(e.args[1], symtab)
    if op == "pow":
        return to_sympy(e.args[0], symtab) ** e.args[1]
    if op == "fn":
        nm = {"abs": "Abs"}.get(e.args[0], e.args[0])
        return getattr(sympy, nm)(to_sympy(e.args[1], symtab))
    raise NotImplementedError(op)


def to_z3(e: E, env, denoms=None, domain=None):
    """env: name -> z3 term. denoms (list) collects denominators; domain collects sqrt arguments."""
    op = e.op
    if op == "c":
        return qval(e.args[0])
    if op == "v":
        return env[e.args[0]]
    if op == "sgnmul":
        a_ = to_z3(e.args[0], env, denoms, domain)
        d_ = to_z3(e.args[1], env, denoms, domain)
        if domain is not None:
            domain.append(a_ != 0)
        return z3.If(a_ > 0, d_, -d_)
    if op == "atan2":
        return uf("atan2", 2)(to_z3(e.args[0], env, denoms, domain), to_z3(e.args[1], env, denoms, domain))
    if op == "k":
        return qval(math.pi)
    if op in ("max", "min", "pw"):
        xs = [to_z3(a, env, denoms, domain) for a in e.args]
        if op == "max":
            return z3.If(xs[0] >= xs[1], xs[0], xs[1])
        if op == "min":
            return z3.If(xs[0] <= xs[1], xs[0], xs[1])
        return z3.If(xs[0] > 0, xs[1], xs[2])
    if op == "+":
        return to_z3(e.args[0], env, denoms, domain) + to_z3(e.args[1], env, denoms, domain)
    if op == "neg":
        return -to_z3(e.args[0], env, denoms, domain)
    if op == "*":
        return to_z3(e.args[0], env, denoms, domain) * to_z3(e.args[1], env, denoms, domain)
    if op == "/":
        d = to_z3(e.args[1], env, denoms, domain)
        if denoms is not None:
            denoms.append(d)
        return to_z3(e.args[0], env, denoms, domain) / d
    if op == "pow":
        a = to_z3(e.args[0], env, denoms, domain)
        n = e.args[1]
        r = a
        for _ in range(abs(n) - 1):
            r = r * a
        if n < 0:
            if denoms is not None:
                denoms.append(r)
            return 1 / r
        return r
    if op == "fn":
        a = to_z3(e.args[1], env, denoms, domain)
        if e.args[0] == "abs":
            return z3.If(a >= 0, a, -a)
        if e.args[0] in ("sec", "csc", "cot"):
            c_, s_ = uf("cos")(a), uf("sin")(a)
            den_ = c_ if e.args[0] == "sec" else s_
            if denoms is not None:
                denoms.append(den_)
            return (c_ if e.args[0] == "cot" else 1) / den_
        if e.args[0] == "tan":
            c = uf("cos")(a)
            if denoms is not None:
                denoms.append(c)
            return uf("sin")(a) / c
        if e.args[0] == "sqrt" and domain is not None:
            domain.append(a >= 0)
        if e.args[0] == "log" and domain is not None:
            domain.append(a > 0)
        if e.args[0] in ("asin", "acos") and domain is not None:
            domain.append(z3.And(a >= -1, a <= 1))
        return uf(e.args[0])(a)
    raise NotImplementedError(op)


def evalf(e: E, env):
    op = e.op
    if op == "c":
        return float(e.args[0])
    if op == "v":
        return float(env[e.args[0]])
    if op == "sgnmul":
        a_ = evalf(e.args[0], env)
        return evalf(e.args[1], env) if a_ > 0 else (-evalf(e.args[1], env) if a_ < 0 else math.nan)
    if op == "atan2":
        return math.atan2(evalf(e.args[0], env), evalf(e.args[1], env))
    if op == "k":
        return math.pi
    if op == "max":
        return max(evalf(e.args[0], env), evalf(e.args[1], env))
    if op == "min":
        return min(evalf(e.args[0], env), evalf(e.args[1], env))
    if op == "pw":
        return evalf(e.args[1], env) if evalf(e.args[0], env) > 0 else evalf(e.args[2], env)
    if op == "+":
        return evalf(e.args[0], env) + evalf(e.args[1], env)
    if op == "neg":
        return -evalf(e.args[0], env)
    if op == "*":
        return evalf(e.args[0], env) * evalf(e.args[1], env)
    if op == "/":
        return evalf(e.args[0], env) / evalf(e.args[1], env)
    if op == "pow":
        return evalf(e.args[0], env) ** e.args[1]
    if op == "fn":
        if e.args[0] == "abs":
            return abs(evalf(e.args[1], env))
        if e.args[0] in ("sec", "csc", "cot"):
            v_ = evalf(e.args[1], env)
            return {"sec": lambda: 1.0 / math.cos(v_), "csc": lambda: 1.0 / math.sin(v_), "cot": lambda: math.cos(v_) / math.sin(v_)}[e.args[0]]()
        return getattr(math, e.args[0])(evalf(e.args[1], env))
    raise NotImplementedError(op)


def evalmag(e: E, env):
    """Magnitude bound of e at a float point: every constant, variable and intermediate taken in absolute value and
    every subtraction turned into an addition.  A float evaluation of e is off by a small multiple of eps * evalmag;
    this is the scale for comparing the real code with the specification where cancellation or tiny / huge operands
    make "relative to the result" meaningless."""
    op = e.op
    if op == "c":
        return abs(float(e.args[0]))
    if op == "v":
        return abs(float(env[e.args[0]]))
    if op == "k":
        return math.pi
    if op == "+":
        return evalmag(e.args[0], env) + evalmag(e.args[1], env)
    if op == "neg":
        return evalmag(e.args[0], env)
    if op == "*":
        return evalmag(e.args[0], env) * evalmag(e.args[1], env)
    if op == "/":
        b = evalf(e.args[1], env)
        return evalmag(e.args[0], env) / abs(b) if b else math.inf
    if op == "pow":
        n = e.args[1]
        if n >= 0:
            return evalmag(e.args[0], env) ** n
        b = evalf(e.args[0], env)
        return abs(b) ** n if b else math.inf
    if op == "sgnmul":
        return evalmag(e.args[1], env)
    if op in ("max", "min", "pw", "fn", "atan2"):
        return abs(evalf(e, env))
    raise NotImplementedError(op)


def from_sympy(s):
    """sympy -> E walker (used for models that exist only as sympy objects in the repository)."""
    import sympy

    if s.is_Symbol:
        return V(s.name)
    if s.is_Integer:
        return C(int(s))
    if s.is_Rational:
        return C(Fraction(int(s.p), int(s.q)))
    if s.is_Float:
        return C(float(s))
    if s.is_Add:
        r = from_sympy(s.args[0])
        for a in s.args[1:]:
            r = add(r, from_sympy(a))
        return r
    if s.is_Mul:
        r = from_sympy(s.args[0])
        for a in s.args[1:]:
            r = mul(r, from_sympy(a))
        return r
    if s.is_Pow:
        b, ex = s.args
        if ex.is_Integer:
            n = int(ex)
            if n < 0:
                return div(C(1), powi(from_sympy(b), -n))
            return powi(from_sympy(b), n)
        if ex == sympy.Rational(1, 2):
            return sqrt(from_sympy(b))
        if ex == sympy.Rational(-1, 2):
            return div(C(1), sqrt(from_sympy(b)))
        raise NotImplementedError(f"pow {s}")
    if isinstance(s, (sympy.sin, sympy.cos, sympy.exp)):
        return fn(type(s).__name__, from_sympy(s.args[0]))
    if isinstance(s, sympy.atan2):
        return atan2(from_sympy(s.args[0]), from_sympy(s.args[1]))
    if isinstance(s, sympy.tan):
        return tan(from_sympy(s.args[0]))
    raise NotImplementedError(f"from_sympy: {type(s)} {s}")


def subst_var(e: E, target: E, name: str) -> E:
    """Replace every occurrence (by object identity) of sub-expression `target` in e by the variable `name`."""
    if e is target:
        return V(name)
    if e.op in ("c", "v", "k"):
        return e
    if e.op == "pow":
        return E("pow", subst_var(e.args[0], target, name), e.args[1])
    if e.op == "fn":
        return E("fn", e.args[0], subst_var(e.args[1], target, name))
    return E(e.op, *[subst_var(a, target, name) for a in e.args])
