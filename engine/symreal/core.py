"""E1 core: z3-backed symbolic reals that flow through the *unmodified* formak Python code.

SymReal  - wraps a z3 Real term; arithmetic builds terms, comparisons give SymBool.
SymBool  - `__bool__` is the fork point (DART-style re-execution with a decision prefix,
           both sides checked for feasibility by z3 before forking).
SymInt   - result of math.floor(SymReal); concretised (forking over 0..K) when used as an index.
explore  - runs a harness function once per feasible path and returns the leaves.
"""
from __future__ import annotations

import math
import time
from fractions import Fraction

import numpy as _np
import z3

z3.set_param("model.completion", True)


class PathAbort(BaseException):
    """Path cut by the engine (beyond a bound, or an assumption is infeasible)."""


class HarnessError(Exception):
    pass


# --------------------------------------------------------------------------- context


def _hard_check(solver, timeout_ms):
    try:
        return solver.check()
    except z3.Z3Exception:
        return z3.unknown


class Ctx:
    def __init__(self, prefix=(), assumes=(), prune_timeout_ms=3000, kmax=3):
        self.prefix = list(prefix)
        self.decisions = []  # (value, other_side_open)
        self.pc = []  # path condition (z3 Bool terms) from forks
        self.assumes = list(assumes)  # input-domain assumptions + recorded gate assumptions
        self.gate_assumed = []  # conditions assumed by gates in 'assume' mode (reported)
        self.counter = {}
        self.cuts = []  # inverse cut-points: dict(name, arg, res)
        self.eigs = []  # eig stubs
        self.events = []  # free-form trace used by harnesses
        self.unpruned = 0
        self.kmax = kmax
        self.prune_timeout_ms = prune_timeout_ms
        self._solver = None
        self._deferred = []
        self.prune_s = 0.0
        self.config = {}

    def fresh_id(self, kind):
        n = self.counter.get(kind, 0)
        self.counter[kind] = n + 1
        return n

    def solver(self):
        if self._solver is None:
            s = z3.Solver()
            s.set("timeout", self.prune_timeout_ms)
            deferred = {d.get_id() for d in self._deferred}
            for a in self.assumes:
                if a.get_id() not in deferred:
                    s.add(a)
            for p in self.pc:
                s.add(p)
            self._solver = s
        return self._solver

    def add_pc(self, t):
        self.pc.append(t)
        if self._solver is not None:
            self._solver.add(t)

    def assume(self, t, why=None):
        """Add an assumption in the middle of a path (gate treated as assumption).
        Gate assumptions (why given) are kept out of the *pruning* solver: they are large nonlinear terms that only
        restrict, so leaving them out over-approximates feasibility (a path explored needlessly is filtered later)."""
        self.assumes.append(t)
        if why is not None:
            self.gate_assumed.append(why)
            self._deferred.append(t)
            return
        if self._solver is not None:
            self._solver.add(t)

    def feasible(self, t):
        s = self.solver()
        t0 = time.time()
        s.push()
        s.add(t)
        r = _hard_check(s, self.prune_timeout_ms)
        s.pop()
        self.prune_s += time.time() - t0
        if r == z3.unknown:
            self.unpruned += 1
            return True
        return r == z3.sat


CTX = Ctx()


def ctx() -> Ctx:
    return CTX


def _set_ctx(c):
    global CTX
    CTX = c


# --------------------------------------------------------------------------- lifting


def qval(v):
    """Exact rational z3 numeral of a Python number (floats: the exact value of the double)."""
    if isinstance(v, bool):
        raise TypeError("bool is not a real")
    if isinstance(v, int):
        return z3.RealVal(v)
    if isinstance(v, Fraction):
        return z3.RealVal(str(v)) if v.denominator != 1 else z3.RealVal(v.numerator)
    if isinstance(v, float):
        if not math.isfinite(v):
            raise TypeError("non-finite float cannot be lifted")
        fr = Fraction(v)
        if fr.denominator == 1:
            return z3.RealVal(fr.numerator)
        return z3.Q(fr.numerator, fr.denominator)
    raise TypeError(f"cannot lift {type(v)}")


def lift(v):
    if isinstance(v, SymReal):
        return v.t
    if isinstance(v, SymInt):
        return v.as_real_term()
    if isinstance(v, (int, float, Fraction)) and not isinstance(v, bool):
        return qval(v)
    if isinstance(v, _np.generic):
        return lift(v.item())
    if isinstance(v, _np.ndarray) and v.size == 1:
        return lift(v.reshape(-1)[0])
    if z3.is_expr(v):
        return v
    raise TypeError(f"cannot lift {type(v)}")


def is_sym(v):
    return isinstance(v, (SymReal, SymInt, SymBool))


def _const_of(v):
    """Python number if v is a concrete number (not symbolic), else None."""
    if isinstance(v, bool):
        return None
    if isinstance(v, (int, float, Fraction)):
        return v
    if isinstance(v, _np.generic):
        return v.item()
    return None


# --------------------------------------------------------------------------- SymBool


class SymBool:
    __slots__ = ("t",)

    def __init__(self, t):
        self.t = t

    def __bool__(self):
        return decide(self.t)

    def _o(self, o):
        if isinstance(o, SymBool):
            return o.t
        if isinstance(o, (bool, _np.bool_)):
            return z3.BoolVal(bool(o))
        raise TypeError(f"SymBool with {type(o)}")

    def __and__(self, o):
        return SymBool(z3.And(self.t, self._o(o)))

    __rand__ = __and__

    def __or__(self, o):
        return SymBool(z3.Or(self.t, self._o(o)))

    __ror__ = __or__

    def __invert__(self):
        return SymBool(z3.Not(self.t))

    def any(self, *a, **k):
        return self

    def all(self, *a, **k):
        return self

    def __repr__(self):
        return f"SymBool({self.t})"


GATE_SITE = ("assert_valid_covariance", "covariance_eigenvalues <")


def _at_site(sites):
    """Name of the first matching (function name, source substring) site among the calling frames, else ''."""
    import linecache
    import sys

    f = sys._getframe(2)
    depth = 0
    while f is not None and depth < 12:
        name = f.f_code.co_name
        for fn, needle in sites:
            if name == fn:
                line = linecache.getline(f.f_code.co_filename, f.f_lineno)
                if needle in line:
                    return f"{fn}:{f.f_lineno}"
        f = f.f_back
        depth += 1
    return ""


def decide(t):
    """Fork point. Returns the branch taken on this path."""
    t = z3.simplify(t)
    if z3.is_true(t):
        return True
    if z3.is_false(t):
        return False
    c = CTX
    sites = c.config.get("assume_false_sites")
    if sites and _at_site(sites):
        # gate treated as an assumption by call site (function name + source text), recorded
        c.assume(z3.Not(t), why="gate assumed not to fire at " + _at_site(sites))
        return False
    # a term already decided on this path keeps its truth value (no new fork, no solver call)
    memo = c.config.setdefault("_decided", {})
    tid = t.get_id()
    if tid in memo:
        return memo[tid][1]
    i = len(c.decisions)
    if i < len(c.prefix):
        d = c.prefix[i]
        c.decisions.append((d, False))
    else:
        if c.config.get("prune", True):
            can_t = c.feasible(t)
            can_f = c.feasible(z3.Not(t))
        else:
            can_t = can_f = True
        if can_t and can_f:
            d = True
            c.decisions.append((True, True))
        elif can_t:
            d = True
            c.decisions.append((True, False))
        elif can_f:
            d = False
            c.decisions.append((False, False))
        else:
            raise PathAbort("infeasible path condition")
    c.add_pc(t if d else z3.Not(t))
    memo[tid] = (t, d)  # keep the term alive so that its id is not reused
    return d


# --------------------------------------------------------------------------- uninterpreted functions

_UF = {}


def uf(name, arity=1):
    key = (name, arity)
    if key not in _UF:
        _UF[key] = z3.Function("uf_" + name, *([z3.RealSort()] * (arity + 1)))
    return _UF[key]


def collect_uf_apps(terms):
    """All applications uf_<name>(arg...) occurring in the given terms: {name: [args tuple]}"""
    seen = set()
    out = {}

    def walk(e):
        if e.get_id() in seen:
            return
        seen.add(e.get_id())
        if z3.is_app(e):
            d = e.decl()
            if d.kind() == z3.Z3_OP_UNINTERPRETED and d.arity() >= 1 and d.name().startswith("uf_"):
                out.setdefault(d.name()[3:], []).append(tuple(e.children()))
            for ch in e.children():
                walk(ch)

    for t in terms:
        walk(t)
    return out


def uf_axioms(terms):
    """Sound axiom instances for the transcendental UFs, one per argument term that occurs."""
    apps = collect_uf_apps(terms)
    ax = []
    trig_args = {}
    for nm in ("sin", "cos"):
        for (a,) in apps.get(nm, []):
            trig_args[a.get_id()] = a
    for a in trig_args.values():
        s, c = uf("sin")(a), uf("cos")(a)
        ax.append(s * s + c * c == 1)
        ax.append(z3.And(s >= -1, s <= 1, c >= -1, c <= 1))
    for (a,) in apps.get("exp", []):
        ax.append(uf("exp")(a) > 0)
    for (a,) in apps.get("sqrt", []):
        r = uf("sqrt")(a)
        ax.append(z3.Implies(a >= 0, z3.And(r >= 0, r * r == a)))
    return ax


# --------------------------------------------------------------------------- SymReal


def _mk(t):
    return SymReal(t)


class SymReal:
    __slots__ = ("t",)

    def __hash__(self):
        # constant hash: a dict/set lookup with a symbolic key then compares with `==` against every symbolic key,
        # which forks (cache hit vs miss) - the right semantics for code that memoises on a float argument
        return 0x5EED

    # no __array_priority__: numpy treats a SymReal as an object scalar and works element-wise

    def __init__(self, t):
        self.t = t

    # -- arithmetic
    def __add__(s, o):
        c = _const_of(o)
        if c is not None and c == 0:
            return s
        try:
            return _mk(s.t + lift(o))
        except TypeError:
            return NotImplemented

    def __radd__(s, o):
        c = _const_of(o)
        if c is not None and c == 0:
            return s
        try:
            return _mk(lift(o) + s.t)
        except TypeError:
            return NotImplemented

    def __sub__(s, o):
        c = _const_of(o)
        if c is not None and c == 0:
            return s
        try:
            return _mk(s.t - lift(o))
        except TypeError:
            return NotImplemented

    def __rsub__(s, o):
        try:
            return _mk(lift(o) - s.t)
        except TypeError:
            return NotImplemented

    def __mul__(s, o):
        c = _const_of(o)
        if c is not None:
            if c == 0:
                return 0.0
            if c == 1:
                return s
        try:
            return _mk(s.t * lift(o))
        except TypeError:
            return NotImplemented

    def __rmul__(s, o):
        c = _const_of(o)
        if c is not None:
            if c == 0:
                return 0.0
            if c == 1:
                return s
        try:
            return _mk(lift(o) * s.t)
        except TypeError:
            return NotImplemented

    def __truediv__(s, o):
        c = _const_of(o)
        if c is not None and c == 1:
            return s
        try:
            return _mk(s.t / lift(o))
        except TypeError:
            return NotImplemented

    def __rtruediv__(s, o):
        c = _const_of(o)
        if c is not None and c == 0:
            return 0.0
        try:
            return _mk(lift(o) / s.t)
        except TypeError:
            return NotImplemented

    def __neg__(s):
        return _mk(-s.t)

    def __pos__(s):
        return s

    def __abs__(s):
        return _mk(z3.If(s.t >= 0, s.t, -s.t))

    def __pow__(s, o):
        c = _const_of(o)
        if c is None:
            if isinstance(o, SymReal):
                cc = z3.simplify(o.t)
                if z3.is_rational_value(cc):
                    c = Fraction(cc.numerator_as_long(), cc.denominator_as_long())
                else:
                    raise TypeError("symbolic exponent")
            else:
                return NotImplemented
        if isinstance(c, float) and c.is_integer():
            c = int(c)
        if isinstance(c, Fraction) and c.denominator == 1:
            c = int(c)
        if isinstance(c, int):
            if c >= 0:
                if c == 0:
                    return 1.0
                r = s.t
                for _ in range(c - 1):
                    r = r * s.t
                return _mk(r)
            return _mk(1 / (s ** (-c)).t)
        if c == 0.5:
            return s.sqrt()
        if c == -0.5:
            return _mk(1 / s.sqrt().t)
        if isinstance(c, (float, Fraction)) and float(c * 2).is_integer():
            n = int(c * 2)  # odd
            k = (abs(n) - 1) // 2
            base = s.sqrt()
            if k:
                base = base * (s**k)
            return base if n > 0 else _mk(1 / base.t)
        raise TypeError(f"unsupported exponent {o}")

    def __rpow__(s, o):
        c = _const_of(o)
        if c is not None and c == math.e:
            return s.exp()
        raise TypeError("symbolic exponent (rpow)")

    # -- comparisons
    def _cmp(s, o, f):
        try:
            return SymBool(f(s.t, lift(o)))
        except TypeError:
            return NotImplemented

    def __lt__(s, o):
        return s._cmp(o, lambda a, b: a < b)

    def __le__(s, o):
        return s._cmp(o, lambda a, b: a <= b)

    def __gt__(s, o):
        return s._cmp(o, lambda a, b: a > b)

    def __ge__(s, o):
        return s._cmp(o, lambda a, b: a >= b)

    def __eq__(s, o):
        return s._cmp(o, lambda a, b: a == b)

    def __ne__(s, o):
        return s._cmp(o, lambda a, b: a != b)

    def __bool__(s):
        # truthiness of a number: x != 0 (fork point), e.g. `if not np.any(innovation)`
        return decide(s.t != 0)

    # -- conversions
    def __float__(s):
        raise HarnessError("concretisation of a SymReal through float()")

    def __int__(s):
        raise HarnessError("concretisation of a SymReal through int()")

    def __floor__(s):
        return SymInt(s.t)

    def __repr__(s):
        return f"Sym({s.t})"

    def __format__(s, spec):
        return repr(s)

    def item(s):
        return s

    # -- elementary functions (numpy ufuncs on object arrays call these by name)
    def sin(s):
        return _mk(uf("sin")(s.t))

    def cos(s):
        return _mk(uf("cos")(s.t))

    def tan(s):
        return _mk(uf("sin")(s.t) / uf("cos")(s.t))

    def exp(s):
        return _mk(uf("exp")(s.t))

    def log(s):
        return _mk(uf("log")(s.t))

    def sqrt(s):
        return _mk(uf("sqrt")(s.t))

    def arcsin(s):
        return _mk(uf("asin")(s.t))

    def arccos(s):
        return _mk(uf("acos")(s.t))

    def arctan(s):
        return _mk(uf("atan")(s.t))

    def arctan2(s, o):
        return _mk(uf("atan2", 2)(s.t, lift(o)))

    def sinh(s):
        return _mk(uf("sinh")(s.t))

    def cosh(s):
        return _mk(uf("cosh")(s.t))

    def tanh(s):
        return _mk(uf("sinh")(s.t) / uf("cosh")(s.t))

    def conjugate(s):
        return s

    def square(s):
        return s * s


class SymInt:
    """floor(t) (optionally abs of it).  Concretised lazily by forking over 0..K."""

    def __init__(self, real_term, absval=False):
        self.rt = real_term
        self.absval = absval
        self.concrete = None  # signed floor value once decided
        self._parent = None

    def _root(self):
        return self._parent._root() if self._parent is not None else self

    def __abs__(self):
        r = SymInt(self.rt, True)
        r._parent = self._root()
        return r

    def _decide(self):
        root = self._root()
        if root.concrete is None:
            K = CTX.kmax
            cands = [0]
            for k in range(1, K + 1):
                cands += [k, -k]
            for j in cands:
                cond = z3.And(qval(j) <= root.rt, root.rt < qval(j + 1))
                if decide(cond):
                    root.concrete = j
                    break
            else:
                raise PathAbort(f"floor value beyond K={K}")
        v = root.concrete
        return abs(v) if self.absval else v

    def __index__(self):
        return self._decide()

    def __int__(self):
        return self._decide()

    def as_real_term(self):
        return qval(self._decide())

    def __mul__(self, o):
        return self._decide() * o

    __rmul__ = __mul__

    def __add__(self, o):
        return self._decide() + o

    __radd__ = __add__

    def __sub__(self, o):
        return self._decide() - o

    def __rsub__(self, o):
        return o - self._decide()

    def __neg__(self):
        return -self._decide()

    def __eq__(self, o):
        return self._decide() == o

    def __lt__(self, o):
        return self._decide() < o

    def __le__(self, o):
        return self._decide() <= o

    def __gt__(self, o):
        return self._decide() > o

    def __ge__(self, o):
        return self._decide() >= o

    __hash__ = None

    def __repr__(self):
        return f"SymInt(floor({self.rt}), abs={self.absval}, c={self._root().concrete})"


def sym(name):
    return SymReal(z3.Real(name))


# --------------------------------------------------------------------------- float stand-in

import builtins as _b


class _FloatMeta(type):
    def __instancecheck__(cls, o):
        return isinstance(o, (_b.float, SymReal))


class FloatLike(metaclass=_FloatMeta):
    """Shadows the name `float` inside formak modules: isinstance accepts SymReal; call keeps SymReal."""

    def __new__(cls, v=0.0):
        if isinstance(v, SymReal):
            return v
        if isinstance(v, SymInt):
            return _b.float(v._decide())
        if isinstance(v, _np.ndarray) and v.dtype == object:
            if v.size != 1:
                raise TypeError("only length-1 arrays can be converted to Python scalars")
            e = v.reshape(-1)[0]
            if isinstance(e, SymReal):
                return e
            return _b.float(e)
        return _b.float(v)


# --------------------------------------------------------------------------- exploration


class Leaf:
    def __init__(self, status, value, c: Ctx):
        self.status = status  # 'ok' | 'exc' | 'cut'
        self.value = value
        self.pc = list(c.pc)
        self.assumes = list(c.assumes)
        self.gate_assumed = list(c.gate_assumed)
        self.decisions = [d for d, _ in c.decisions]
        self.cuts = c.cuts
        self.eigs = c.eigs
        self.events = c.events
        self.unpruned = c.unpruned
        self.prune_s = c.prune_s

    def pc_term(self):
        return z3.And(*self.pc) if self.pc else z3.BoolVal(True)

    def __repr__(self):
        v = self.value
        if isinstance(v, BaseException):
            v = f"{type(v).__name__}: {str(v)[:80]}"
        try:
            vs = f"{v!r:.120}"
        except BaseException:  # repr of library objects may try to concretise symbolic values
            vs = f"<{type(v).__name__}>"
        return f"Leaf({self.status}, {''.join('T' if d else 'F' for d in self.decisions)}, {vs})"


def explore(fn, *, assumes=(), max_paths=4000, kmax=3, prune_timeout_ms=3000, config=None, catch=(Exception,)):
    """Run fn() once per feasible path. fn creates its symbolic inputs by *name* (deterministically)."""
    leaves = []
    stack = [[]]
    saved = CTX
    try:
        while stack:
            if len(leaves) >= max_paths:
                raise HarnessError(f"more than {max_paths} paths")
            prefix = stack.pop()
            c = Ctx(prefix, assumes, prune_timeout_ms=prune_timeout_ms, kmax=kmax)
            if config:
                c.config.update(config)
            if c.config.get("gate") == "assume":
                # validity gate treated as an assumption: its eigenvalue comparison is assumed not to fire (by call site)
                c.config["assume_false_sites"] = list(c.config.get("assume_false_sites", [])) + [GATE_SITE]
            _set_ctx(c)
            try:
                val = fn()
                status = "ok"
            except PathAbort as e:
                val, status = e, "cut"
            except HarnessError:
                raise
            except catch as e:
                val, status = e, "exc"
            for i in range(len(prefix), len(c.decisions)):
                d, open_ = c.decisions[i]
                if open_:
                    stack.append([x for x, _ in c.decisions[:i]] + [not d])
            leaves.append(Leaf(status, val, c))
    finally:
        _set_ctx(saved)
    return leaves


def run_single(fn, *, assumes=(), config=None, kmax=3):
    """Run fn() on the single path (raises if the code forks)."""
    leaves = explore(fn, assumes=assumes, config=config, kmax=kmax)
    if len(leaves) != 1:
        raise HarnessError(f"expected a single path, got {len(leaves)}: {leaves[:4]}")
    return leaves[0]
