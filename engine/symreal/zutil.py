"""z3 term utilities: float evaluation of terms (for encoding validation / replay), equality obligations."""
from __future__ import annotations

import math
from fractions import Fraction

import z3

_FN = {
    "uf_sin": math.sin,
    "uf_cos": math.cos,
    "uf_exp": math.exp,
    "uf_sqrt": math.sqrt,
    "uf_log": math.log,
    "uf_asin": math.asin,
    "uf_acos": math.acos,
    "uf_atan": math.atan,
    "uf_sinh": math.sinh,
    "uf_cosh": math.cosh,
    "uf_atan2": math.atan2,
}


def zeval(t, env, cache=None):
    """Evaluate a z3 real/bool term in floats. env: variable name -> float. UFs are the real functions."""
    if cache is None:
        cache = {}
    key = t.get_id()
    if key in cache:
        return cache[key]
    r = _zeval(t, env, cache)
    cache[key] = r
    return r


def _zeval(t, env, cache):
    if z3.is_rational_value(t):
        return t.numerator_as_long() / t.denominator_as_long()
    if z3.is_int_value(t):
        return float(t.as_long())
    if z3.is_true(t):
        return True
    if z3.is_false(t):
        return False
    d = t.decl()
    k = d.kind()
    ch = t.children()
    if k == z3.Z3_OP_UNINTERPRETED:
        if not ch:
            return env[d.name()]
        if d.name() in _FN:
            return _FN[d.name()](*[zeval(c, env, cache) for c in ch])
        if d.name() in env:  # user supplied python callable for a UF
            return env[d.name()](*[zeval(c, env, cache) for c in ch])
        raise KeyError(d.name())
    if k == z3.Z3_OP_ADD:
        return sum(zeval(c, env, cache) for c in ch)
    if k == z3.Z3_OP_MUL:
        r = 1.0
        for c in ch:
            r *= zeval(c, env, cache)
        return r
    if k == z3.Z3_OP_SUB:
        r = zeval(ch[0], env, cache)
        for c in ch[1:]:
            r -= zeval(c, env, cache)
        return r
    if k == z3.Z3_OP_UMINUS:
        return -zeval(ch[0], env, cache)
    if k == z3.Z3_OP_DIV:
        a, b = zeval(ch[0], env, cache), zeval(ch[1], env, cache)
        if b == 0:
            return math.nan
        return a / b
    if k == z3.Z3_OP_POWER:
        return zeval(ch[0], env, cache) ** zeval(ch[1], env, cache)
    if k == z3.Z3_OP_ITE:
        return zeval(ch[1], env, cache) if zeval(ch[0], env, cache) else zeval(ch[2], env, cache)
    if k == z3.Z3_OP_TO_REAL:
        return float(zeval(ch[0], env, cache))
    if k == z3.Z3_OP_TO_INT:
        return float(math.floor(zeval(ch[0], env, cache)))
    if k == z3.Z3_OP_LE:
        return zeval(ch[0], env, cache) <= zeval(ch[1], env, cache)
    if k == z3.Z3_OP_LT:
        return zeval(ch[0], env, cache) < zeval(ch[1], env, cache)
    if k == z3.Z3_OP_GE:
        return zeval(ch[0], env, cache) >= zeval(ch[1], env, cache)
    if k == z3.Z3_OP_GT:
        return zeval(ch[0], env, cache) > zeval(ch[1], env, cache)
    if k == z3.Z3_OP_EQ:
        return zeval(ch[0], env, cache) == zeval(ch[1], env, cache)
    if k == z3.Z3_OP_DISTINCT:
        return zeval(ch[0], env, cache) != zeval(ch[1], env, cache)
    if k == z3.Z3_OP_AND:
        return all(zeval(c, env, cache) for c in ch)
    if k == z3.Z3_OP_OR:
        return any(zeval(c, env, cache) for c in ch)
    if k == z3.Z3_OP_NOT:
        return not zeval(ch[0], env, cache)
    if k == z3.Z3_OP_IMPLIES:
        return (not zeval(ch[0], env, cache)) or zeval(ch[1], env, cache)
    raise NotImplementedError(f"zeval: {d.name()} kind {k}")


def zmag(t, env, cache=None):
    """Magnitude bound of a real term at a float point: the value computed with every leaf, constant and intermediate
    taken in absolute value and every subtraction turned into an addition (sum of the absolute values of the terms).
    Rounding error of a float evaluation of t is a small multiple of eps * zmag(t): the scale against which two float
    evaluations of "the same" real expression have to be compared when cancellation is possible."""
    if cache is None:
        cache = {}
    key = t.get_id()
    if key in cache:
        return cache[key]
    r = _zmag(t, env, cache)
    cache[key] = r
    return r


def _zmag(t, env, cache):
    if z3.is_rational_value(t):
        return abs(t.numerator_as_long() / t.denominator_as_long())
    if z3.is_int_value(t):
        return abs(float(t.as_long()))
    d = t.decl()
    k = d.kind()
    ch = t.children()
    if k == z3.Z3_OP_UNINTERPRETED:
        return abs(zeval(t, env))
    if k in (z3.Z3_OP_ADD, z3.Z3_OP_SUB):
        return sum(zmag(c, env, cache) for c in ch)
    if k == z3.Z3_OP_MUL:
        r = 1.0
        for c in ch:
            r *= zmag(c, env, cache)
        return r
    if k == z3.Z3_OP_UMINUS:
        return zmag(ch[0], env, cache)
    if k == z3.Z3_OP_DIV:
        b = zeval(ch[1], env)
        return zmag(ch[0], env, cache) / abs(b) if b else math.inf
    if k == z3.Z3_OP_ITE:
        return zmag(ch[1], env, cache) if zeval(ch[0], env) else zmag(ch[2], env, cache)
    return abs(zeval(t, env))


def term_of(v):
    from .core import lift

    return lift(v)


def mat_terms(M):
    """object/float ndarray -> nested list of z3 terms"""
    from .core import lift

    return [[lift(M[i, j]) for j in range(M.shape[1])] for i in range(M.shape[0])]
