"""numpy stand-in installed as `formak.python.np` / `formak.common.np` while a harness runs.

Everything not listed here is real numpy (matmul, transpose, reshape, slicing, + - * on object arrays).
Modes (ctx().config):
  gate      : 'assume' -> allclose()/eig gates are treated as assumptions (symmetric, eigenvalues >= 0)
              'explore' -> symbolic conjunction / contract stub, both outcomes explored
  inverse   : 'cut' (fresh symbols + recorded argument) | 'closed' (adjugate / determinant, m <= 3)
  eig_err   : callable(n, matrix) -> z3 bound on |eig error| for the eig contract stub (C09), or None
"""
from __future__ import annotations

import types
from contextlib import contextmanager

import numpy as _np
import z3

from . import core
from .core import SymBool, SymReal, SymInt, FloatLike, ctx, lift, qval


def has_sym(x):
    if isinstance(x, (SymReal, SymInt, SymBool)):
        return True
    if isinstance(x, _np.ndarray):
        if x.dtype != object:
            return False
        return any(isinstance(e, (SymReal, SymInt, SymBool)) for e in x.reshape(-1))
    if isinstance(x, (list, tuple)):
        return any(has_sym(e) for e in x)
    return False


def _obj(a):
    if isinstance(a, _np.ndarray) and a.dtype == object:
        return a
    return _np.array(a, dtype=object)


def zeros(shape, dtype=None, **k):
    r = _np.empty(shape, dtype=object)
    r.fill(0.0)
    return r


def ones(shape, dtype=None, **k):
    r = _np.empty(shape, dtype=object)
    r.fill(1.0)
    return r


def eye(n, *a, **k):
    r = zeros((n, n))
    for i in range(n):
        r[i, i] = 1.0
    return r


def array(x, dtype=None, **k):
    if has_sym(x):
        return _np.array(x, dtype=object)
    if dtype is None and isinstance(x, _np.ndarray) and x.dtype == object:
        return _np.array(x, dtype=object)
    return _np.array(x, dtype=dtype, **k)


def _elem_close(a, b, rtol=1e-05, atol=1e-08):
    d = lift(a) - lift(b)
    bb = lift(b)
    return z3.And(d <= qval(atol) + qval(rtol) * z3.If(bb >= 0, bb, -bb), -d <= qval(atol) + qval(rtol) * z3.If(bb >= 0, bb, -bb))


def allclose(a, b, rtol=1e-05, atol=1e-08, **k):
    if not (has_sym(a) or has_sym(b)):
        return _np.allclose(_np.array(a, dtype=float), _np.array(b, dtype=float), rtol=rtol, atol=atol)
    a, b = _obj(a), _obj(b)
    if a.shape != b.shape:
        a, b = _np.broadcast_arrays(a, b)
    conj = []
    for x, y in zip(a.reshape(-1), b.reshape(-1)):
        if x is y:
            continue
        try:
            tx, ty = lift(x), lift(y)
        except TypeError:
            raise
        if tx.eq(ty):
            continue
        conj.append(_elem_close(x, y, rtol, atol))
    if not conj:
        return True
    t = z3.And(*conj)
    # only the symmetry test inside assert_valid_covariance is a *gate*; any other allclose in the code under test
    # is ordinary control flow and forks
    if ctx().config.get("gate", "assume") == "assume" and core._at_site([("assert_valid_covariance", "allclose")]):
        ctx().assume(t, why="allclose gate assumed to pass")
        return True
    return SymBool(t)


def any_(x, *a, **k):
    if isinstance(x, SymBool):
        return x
    if isinstance(x, _np.ndarray) and x.dtype == object:
        flat = list(x.reshape(-1))
        if any(isinstance(e, SymBool) for e in flat):
            ts = [e.t if isinstance(e, SymBool) else z3.BoolVal(bool(e)) for e in flat]
            t = z3.Or(*ts)
            if ctx().config.get("any_gate") == "assume-false":
                # sign/validity gates of the form `if np.any(x < 0): raise` treated as assumptions (recorded)
                ctx().assume(z3.Not(t), why="np.any(...) gate assumed not to fire")
                return False
            return SymBool(t)
        return any(bool(e) for e in flat)
    return _np.any(x, *a, **k)


def all_(x, *a, **k):
    if isinstance(x, SymBool):
        return x
    if isinstance(x, _np.ndarray) and x.dtype == object:
        flat = list(x.reshape(-1))
        if any(isinstance(e, SymBool) for e in flat):
            ts = [e.t if isinstance(e, SymBool) else z3.BoolVal(bool(e)) for e in flat]
            return SymBool(z3.And(*ts))
        return all(bool(e) for e in flat)
    return _np.all(x, *a, **k)


def isfinite(x):
    if has_sym(x):
        return True  # reals are finite: stated assumption
    return _np.isfinite(x)


def _ufunc1(name):
    real = getattr(_np, name)

    def f(x, *a, **k):
        if isinstance(x, SymReal):
            return getattr(x, name)()
        return real(x, *a, **k)

    f.__name__ = name
    return f


def sqrt(x, *a, **k):
    if isinstance(x, SymReal):
        return x.sqrt()
    if isinstance(x, _np.ndarray) and x.dtype == object:
        r = _np.empty(x.shape, dtype=object)
        for i, e in enumerate(x.reshape(-1)):
            r.reshape(-1)[i] = e.sqrt() if isinstance(e, SymReal) else _np.sqrt(float(e))
        return r
    return _np.sqrt(x, *a, **k)


def square(x, *a, **k):
    if isinstance(x, SymReal):
        return x * x
    if isinstance(x, (list, tuple)) and has_sym(x):
        x = _np.array(x, dtype=object)
    if isinstance(x, _np.ndarray) and x.dtype == object:
        return x * x
    return _np.square(x, *a, **k)


def mean(x, *a, **k):
    if isinstance(x, _np.ndarray) and x.dtype == object and not a and not k:
        flat = list(x.reshape(-1))
        s = flat[0]
        for e in flat[1:]:
            s = s + e
        return s / len(flat)
    return _np.mean(x, *a, **k)


def sum_(x, *a, **k):
    if isinstance(x, SymReal):
        return x
    if isinstance(x, _np.ndarray) and x.dtype == object and not a and not k:
        flat = list(x.reshape(-1))
        if not flat:
            return 0.0
        s = flat[0]
        for e in flat[1:]:
            s = s + e
        return s
    return _np.sum(x, *a, **k)


def max_(x, *a, initial=None, **k):
    """max over a symbolic array: a fresh symbol constrained to be >= every element and equal to one of them
    (no forking over the element order)."""
    if not has_sym(x):
        if initial is not None:
            return _np.max(x, *a, initial=initial, **k)
        return _np.max(x, *a, **k)
    flat = [lift(e) for e in _obj(x).reshape(-1)]
    if initial is not None:
        flat.append(lift(initial))
    c = ctx()
    kk = c.fresh_id("max")
    mx = z3.Real(f"max{kk}")
    c.assume(z3.And(*[mx >= e for e in flat]), why=f"definition of max{kk}")
    c.assume(z3.Or(*[mx == e for e in flat]), why=f"definition of max{kk}")
    return SymReal(mx)


# ----------------------------------------------------------------------------- linalg


def _closed_inverse(S):
    n = S.shape[0]
    if n == 1:
        return _np.array([[1 / S[0, 0]]], dtype=object)
    if n == 2:
        a, b, c, d = S[0, 0], S[0, 1], S[1, 0], S[1, 1]
        det = a * d - b * c
        return _np.array([[d / det, -b / det], [-c / det, a / det]], dtype=object)
    if n == 3:
        m = S
        c00 = m[1, 1] * m[2, 2] - m[1, 2] * m[2, 1]
        c01 = -(m[1, 0] * m[2, 2] - m[1, 2] * m[2, 0])
        c02 = m[1, 0] * m[2, 1] - m[1, 1] * m[2, 0]
        c10 = -(m[0, 1] * m[2, 2] - m[0, 2] * m[2, 1])
        c11 = m[0, 0] * m[2, 2] - m[0, 2] * m[2, 0]
        c12 = -(m[0, 0] * m[2, 1] - m[0, 1] * m[2, 0])
        c20 = m[0, 1] * m[1, 2] - m[0, 2] * m[1, 1]
        c21 = -(m[0, 0] * m[1, 2] - m[0, 2] * m[1, 0])
        c22 = m[0, 0] * m[1, 1] - m[0, 1] * m[1, 0]
        det = m[0, 0] * c00 + m[0, 1] * c01 + m[0, 2] * c02
        cof = [[c00, c01, c02], [c10, c11, c12], [c20, c21, c22]]
        return _np.array([[cof[j][i] / det for j in range(3)] for i in range(3)], dtype=object)
    raise core.HarnessError("closed-form inverse only for n <= 3")


def inv(S):
    if not has_sym(S):
        return _np.linalg.inv(_np.array(S, dtype=float))
    S = _obj(S)
    n = S.shape[0]
    assert S.shape == (n, n)
    c = ctx()
    mode = c.config.get("inverse", "cut")
    if mode == "closed":
        return _closed_inverse(S)
    k = c.fresh_id("inv")
    prefix = c.config.get("cut_prefix", "inv")
    X = _np.empty((n, n), dtype=object)
    for i in range(n):
        for j in range(n):
            X[i, j] = SymReal(z3.Real(f"{prefix}{k}_{i}{j}"))
    c.cuts.append({"k": k, "arg": S.copy(), "res": X.copy()})
    return X


def eig(M):
    if not has_sym(M):
        return _np.linalg.eig(_np.array(M, dtype=float))
    M = _obj(M)
    n = M.shape[0]
    c = ctx()
    k = c.fresh_id("eig")
    vals = _np.empty((n,), dtype=object)
    for i in range(n):
        vals[i] = SymReal(z3.Real(f"eig{k}_{i}"))
    c.eigs.append({"k": k, "arg": M.copy(), "vals": vals.copy()})
    hook = c.config.get("eig_contract")
    if hook is not None:
        hook(c, M, vals)
    elif c.config.get("gate", "assume") == "assume":
        for i in range(n):
            c.assume(vals[i].t >= 0, why="eigenvalue gate assumed to pass (valid covariance)")
    return vals, None


def cholesky(S):
    """Closed-form lower Cholesky factor (n <= 3) with sqrt as the engine's UF (axioms: sqrt(a)^2 = a, >= 0 for a >= 0)."""
    if not has_sym(S):
        return _np.linalg.cholesky(_np.array(S, dtype=float))
    S = _obj(S)
    n = S.shape[0]
    if n > 3:
        raise core.HarnessError("closed-form Cholesky only for n <= 3")
    L = zeros((n, n))

    def sq(v):
        return v.sqrt() if isinstance(v, SymReal) else _np.sqrt(float(v))

    for j in range(n):
        acc = S[j, j]
        for k in range(j):
            acc = acc - L[j, k] * L[j, k]
        L[j, j] = sq(acc)
        for i in range(j + 1, n):
            acc = S[i, j]
            for k in range(j):
                acc = acc - L[i, k] * L[j, k]
            L[i, j] = acc / L[j, j]
    return L


class _Linalg(types.ModuleType):
    def __getattr__(self, name):
        return getattr(_np.linalg, name)


linalg = _Linalg("np_shim.linalg")
linalg.inv = inv
linalg.eig = eig
linalg.cholesky = cholesky


class _Shim(types.ModuleType):
    def __getattr__(self, name):
        return getattr(_np, name)


np_shim = _Shim("np_shim")
np_shim.zeros = zeros
np_shim.ones = ones
np_shim.eye = eye
np_shim.array = array
np_shim.allclose = allclose
np_shim.any = any_
np_shim.all = all_
np_shim.isfinite = isfinite
np_shim.sqrt = sqrt
np_shim.square = square
np_shim.mean = mean
np_shim.sum = sum_
np_shim.max = max_
np_shim.amax = max_
np_shim.linalg = linalg
for _n in ("sin", "cos", "tan", "exp", "log", "arcsin", "arccos", "arctan", "sinh", "cosh", "tanh"):
    setattr(np_shim, _n, _ufunc1(_n))


# ----------------------------------------------------------------------------- math functions imported by name


def _sym_isclose(a, b, *, rel_tol=1e-09, abs_tol=0.0):
    import math as _m

    if not (has_sym(a) or has_sym(b) or has_sym(rel_tol) or has_sym(abs_tol)):
        return _m.isclose(a, b, rel_tol=rel_tol, abs_tol=abs_tol)
    ta, tb = lift(a), lift(b)
    d = ta - tb
    ad = z3.If(d >= 0, d, -d)
    aa = z3.If(ta >= 0, ta, -ta)
    ab = z3.If(tb >= 0, tb, -tb)
    big = z3.If(aa >= ab, aa, ab)
    rel = lift(rel_tol) * big
    tol = z3.If(rel >= lift(abs_tol), rel, lift(abs_tol))
    return SymBool(ad <= tol)


def _sym_fabs(a):
    import math as _m

    return abs(a) if has_sym(a) else _m.fabs(a)


def _sym_sqrt(a):
    import math as _m

    return a.sqrt() if isinstance(a, SymReal) else _m.sqrt(a)


def _sym_copysign(a, b):
    import math as _m

    if not (has_sym(a) or has_sym(b)):
        return _m.copysign(a, b)
    ta, tb = lift(a), lift(b)
    aa = z3.If(ta >= 0, ta, -ta)
    return SymReal(z3.If(tb >= 0, aa, -aa))


SYM_MATH = {"isclose": _sym_isclose, "fabs": _sym_fabs, "sqrt": _sym_sqrt, "copysign": _sym_copysign}


@contextmanager
def math_names_installed(module):
    """Replace functions that `module` imported *by name* from math (e.g. `from math import isclose`) with
    symbolic-aware versions for the duration of a harness (floor/ceil/trunc dispatch to __floor__ etc. natively)."""
    import math as _m

    saved = []
    for name, val in list(vars(module).items()):
        if name in SYM_MATH and val is getattr(_m, name, None):
            saved.append((name, val))
            setattr(module, name, SYM_MATH[name])
    try:
        yield
    finally:
        for name, val in saved:
            setattr(module, name, val)


@contextmanager
def installed(extra=None):
    """Install the shim into the formak modules (attribute assignment; the sources are untouched)."""
    import formak.common as fc
    import formak.python as fp

    saved = []

    def put(mod, name, val):
        saved.append((mod, name, mod.__dict__.get(name, _MISSING)))
        setattr(mod, name, val)

    put(fp, "np", np_shim)
    put(fc, "np", np_shim)
    put(fp, "float", FloatLike)
    put(fc, "float", FloatLike)
    for mod, name, val in extra or ():
        put(mod, name, val)
    try:
        yield
    finally:
        for mod, name, old in reversed(saved):
            if old is _MISSING:
                try:
                    delattr(mod, name)
                except AttributeError:
                    pass
            else:
                setattr(mod, name, old)


_MISSING = object()
