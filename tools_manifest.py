#!/usr/bin/env python3
"""Regenerates MANIFEST.json from the table below (keeps it valid at all times)."""
import json, os
HERE = os.path.dirname(os.path.abspath(__file__))

CHECKS = {}  # pid -> dict(level, text, note, technique, engine, design)
NA = {}

def chk(pid, level, text, note, technique, engine, design):
    CHECKS[pid] = dict(level=level, text=text, note=note, technique=technique, engine=engine, design=design)

exec(open(os.path.join(HERE, "manifest_table.py")).read())

props = [json.loads(l)["id"] for l in open(os.path.join(HERE, "properties.jsonl"))]
checks = []
for pid in props:
    if pid in CHECKS:
        c = CHECKS[pid]
        checks.append({
            "property_id": pid,
            "quick_cmd": f"bin/check {pid} --tier quick",
            "thorough_cmd": f"bin/check {pid} --tier thorough",
            "evidence_file": f"/verif/evidence/{pid}.json",
            "replay_cmd_template": f"bin/check {pid} --replay {{path}}",
            "engine": c["engine"],
            "level_claimed": {"category": c["level"], "text": c["text"], "design_ref": c["design"]},
            "level_note": c["note"],
            "technique": c["technique"],
        })
na = [{"property_id": pid, "reason": NA.get(pid, "check not built yet in this round; see DESIGN.md section 5 for the plan")} for pid in props if pid not in CHECKS]
man = {
    "version": 1,
    "setup_cmd": "bin/bootstrap",
    "hooks": {
        "guard": "FORMAK_VERIF",
        "enable": "none needed: the engines substitute module globals (np, float, minimize) at harness time and the token `double` by the preprocessor in the harness translation unit; /repo carries no instrumentation",
        "baseline_off_cmd": "bin/baseline",
        "source_commits": [],
        "add_only": True,
    },
    "engines": ENGINES,
    "checks": checks,
    "not_applicable": na,
    "notes": NOTES,
}
json.dump(man, open(os.path.join(HERE, "MANIFEST.json"), "w"), indent=1)
print(len(checks), "checks;", len(na), "not applicable")
