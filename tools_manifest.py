#!/usr/bin/env python3
"""Regenerates MANIFEST.json from the table below (keeps it valid at all times)."""
import json, os
HERE = os.path.dirname(os.path.abspath(__file__))

CHECKS = {}  # pid -> dict(level, text, note, technique, engine, design)
NA = {}

def chk(pid, level, text, note, technique, engine, design):
    CHECKS[pid] = dict(level=level, text=text, note=note, technique=technique, engine=engine, design=design)

exec(open(os.path.join(HERE, "manifest_table.py")).read())

# Companion replays: what the exact-real, bounded solver queries cannot distinguish is replayed on the real code and
# reported as concrete obligations in the evidence (never as solver verdicts).
COMPANION = {
    "C01": "Companion replays (concrete, labelled as such in the evidence): seeded points in value regimes (states ~1e-9, ~1e6) judged against the magnitude bound of the specification; sat witnesses are also searched in a 2^20 box.",
    "C02": "Companion: sat witnesses are also searched in a 2^20 box and judged against the specification's magnitude bound (tiny coefficients); exact-fraction noise values and non-round literals are corpus members.",
    "C03": "Companion replays (concrete): Jacobians at seeded points with states/controls ~1e-9, a 2^-9 step, and states ~1e6, judged against operand magnitude.",
    "C04": "Companion replays (concrete): seeded points in value regimes (covariance and noise scaled by 2^-46, states ~1e-9 / ~1e6) judged against operand magnitude; whole-number points under other array representations (int64, read-only, strided).",
    "C05": "Companion replays (concrete): seeded points in value regimes (covariance and noise scaled by 2^-46, tiny / huge states; cond(S) <= 1e6) judged against operand magnitude.",
    "C06": "Companion clause: the configured threshold is read back exactly from the generated C++ for non-round, numpy-scalar and integer values, object and dict config forms.",
    "C07": "Companion replays (concrete): python vs generated C++ at value-regime points (tiny-noise twin of the program); configured numbers read back exactly from the generated C++.",
    "C09": "Concrete histories are the replay target (200-600 steps, several programs incl. zero variance by cancellation); any exception raised by the code under test on a valid history counts as a refusal.",
    "C10": "Companion replays (concrete): moves of hundreds to thousands of maximum steps from clock values 1e5..1e6 in doubles (outside the K bound), tolerance in spacings of the representable times; configured step read back exactly from the generated C++.",
    "C11": "Companion replays (concrete): output-only ticks spanning thousands of steps must not change later call sequences; configured step read back exactly from the generated C++.",
    "C12": "Companion: compile-only task for switching-function models; configured numbers (numpy scalars, ints, non-round) read back exactly; readings overload with an empty vector.",
    "C16": "Companion replays (concrete): configured maximum step below the adapter's 0.1, a micro-gain sensor (S ~ 1e-12), data scales 2^-20 .. 2^10.",
    "C17": "Companion (concrete): fit with the real scipy optimiser from tiny (1e-10) / large initial noise: MinimizationFailure or same model with finite positive noise.",
    "C18": "Grid candidates are also supplied as tuples / numpy arrays (forms scikit-learn accepts).",
    "C19": "Companion replays (concrete, before the symbolic run): compiled model vs reference at points with dt above/below the configured maximum, an almost-identity calibration, 5e-9 biases, large positions, judged against operand magnitude.",
}
for _pid, _txt in COMPANION.items():
    if _pid in CHECKS:
        CHECKS[_pid]["note"] = CHECKS[_pid]["note"].rstrip() + " " + _txt

props = [json.loads(l)["id"] for l in open(os.path.join(HERE, "properties.jsonl"))]
checks = []
for pid in props:
    if pid in CHECKS:
        c = CHECKS[pid]
        checks.append({
            "property_id": pid,
            "quick_cmd": f"bin/check {pid} --tier quick",
            "thorough_cmd": f"bin/check {pid} --tier thorough",
            "evidence_file": f"/verif/evidence/{pid}.json",
            "replay_cmd_template": f"bin/check {pid} --replay {{path}}",
            "engine": c["engine"],
            "level_claimed": {"category": c["level"], "text": c["text"], "design_ref": c["design"]},
            "level_note": c["note"],
            "technique": c["technique"],
        })
na = [{"property_id": pid, "reason": NA.get(pid, "check not built yet in this round; see DESIGN.md section 5 for the plan")} for pid in props if pid not in CHECKS]
man = {
    "version": 1,
    "setup_cmd": "bin/bootstrap",
    "hooks": {
        "guard": "FORMAK_VERIF",
        "enable": "none needed: the engines substitute module globals (np, float, minimize) at harness time and the token `double` by the preprocessor in the harness translation unit; /repo carries no instrumentation",
        "baseline_off_cmd": "bin/baseline",
        "source_commits": [],
        "add_only": True,
    },
    "engines": ENGINES,
    "checks": checks,
    "not_applicable": na,
    "notes": NOTES,
}
json.dump(man, open(os.path.join(HERE, "MANIFEST.json"), "w"), indent=1)
print(len(checks), "checks;", len(na), "not applicable")
