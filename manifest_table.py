ENGINES = [
    {"name": "E1-symreal", "path": "engine/symreal", "serves_properties": ["C01", "C03", "C04", "C05", "C06", "C07", "C08", "C09", "C10", "C11", "C13", "C16", "C17", "C18", "C19"], "kind_free_text": "symbolic execution of the unmodified formak Python on z3-backed reals (operator overloading + numpy shim, DART-style path exploration with solver pruning)"},
    {"name": "E3-crosshair", "path": "engine/ch", "serves_properties": ["C18"], "kind_free_text": "CrossHair 0.0.110 (symbolic execution of Python with z3) over PEP316 conditions on the real ui_state_machine classes; every condition has a reachability twin that must be refuted"},
    {"name": "E2-vsym", "path": "engine/vsym", "serves_properties": ["C02", "C06", "C07", "C08", "C10", "C11", "C12", "C13"], "kind_free_text": "symbolic execution of the real generated C++ / ManagedFilter.h / innovation_filtering.h: compiled by g++ with `double` replaced by a DAG-building scalar, stand-in Eigen/Dense, fork(2) at every symbolic branch, leaves emitted as SMT-LIB and loaded into z3"},
]
NOTES = "Solver-based checking (z3 5.1) of the real code; see DESIGN.md. Exit codes: 0 ok, 1 violation, 2 harness error/inconclusive machinery."
NA["C14"] = "structural accept/reject over sets/dicts of sympy objects: the only symbolic treatment is forking on every membership bit, i.e. enumeration of concrete definitions with the solver as bystander (DESIGN 11)"
NA["C15"] = "quantifies over PYTHONHASHSEED and container iteration order inside CPython/sympy; not encodable, verdict would be string equality of concrete generator runs (DESIGN 11)"

chk("C01", "translation_validation",
    "For each corpus program and both CSE settings the real python.compile(...).model is executed on symbolic reals; every output slot is proved equal (z3 unsat of the negation) to the user's update expression for ALL real inputs; CSE on == CSE off likewise. Bounded in the program dimension only (stated corpus + seeded random grammar members).",
    "Trusts z3, reals-for-doubles, UF abstraction of sin/cos/exp/sqrt with sound axioms, the numpy shim and the corpus renderers (validated at concrete points on every run).",
    "symbolic execution of the real Python + SMT equivalence (z3, QF_UFNRA)", "E1-symreal", "5/C01")

chk("C03", "translation_validation",
    "Every entry of the real filter's process / control / sensor Jacobian, executed on symbolic reals, is proved equal for ALL evaluation points to the partial derivative computed by the harness's own differentiator at the row/column derived from sorted names; rectangular cases (readings != states, calibration present, controls > states) are in the corpus.",
    "Trusts z3, the harness differentiator (validated by central differences each run), UF abstraction with derivative rules, gates assumed.",
    "symbolic execution of the real Python + SMT equivalence against an independent differentiator", "E1-symreal", "5/C03")
chk("C04", "translation_validation",
    "process_model on symbolic dt/state/P/control/calibration/noise: state == f and every covariance entry == (G P G^T + V M V^T)[i][j] for all reals (all symmetric P), inputs term-identical after the call, second call term-identical. Program dimension bounded by the corpus.",
    "Validity gates are assumptions here (C09 covers them); witnesses restricted to diagonally dominant P so that replay passes the gates.",
    "symbolic execution of the real Python + SMT equivalence (z3)", "E1-symreal", "5/C04")
chk("C05", "translation_validation",
    "sensor_model on symbolic inputs with the matrix inverse as a shared cut-point: recorded S, recorded innovation, inverse argument, returned state and covariance are proved equal to the Kalman correction formulas for all inputs and all symmetric P, for sensors with 1..3 readings, with and without calibration, filter off and on (accept path); consequences (z=h(x) => unchanged, symmetric posterior, posterior <= prior for m=1) as separate validity queries.",
    "np.linalg.inv treated as an uninterpreted function of its argument (argument proved equal to S); gates assumed; posterior<=prior by nlsat only for m=1.",
    "symbolic execution of the real Python + SMT equivalence with inverse cut-point", "E1-symreal", "5/C05")
chk("C06", "translation_validation",
    "Decision equivalence as validity queries: remove_innovation's returned condition, and the reject-leaf path condition of sensor_model, are equivalent to z'S^-1 z > k*sqrt(2m)+m for all k>0, z, S^-1 (m=1..3, thorough up to 8); reject returns the input objects with unchanged terms and records z-h; disabled filtering has no reject path; sequences of sensors of different size on one filter object. C++: removeInnovation<m> and the generated sensor_model reject leaf are equivalent to the same specification (so Python, helper and generated filter agree); and in IEEE-754 binary64 (QF_FP) the helper's decision equals n > fl(fl(k*sqrt(2m))+m) for all finite doubles in range, i.e. also at and within an ulp of the boundary.",
    "Reals except sqrt(2m) (the code's double) and the dedicated QF_FP boundary clause for the C++ helper (NIS abstracted as one free double).",
    "symbolic execution (path conditions) + SMT validity of decision equivalence (QF_NRA) + QF_FP boundary query", "E1-symreal + E2-vsym", "5/C06")

chk("C02", "translation_validation",
    "The C++ header+source generated from the current tree are compiled (g++ -std=c++17) and executed with double replaced by a symbolic scalar; every output of Model::model, ProcessModel::model/process_jacobian/control_jacobian/covariance and each <Reading>SensorModel::model/jacobian/covariance, read through named accessors, is proved equal for ALL inputs to the symbolic expression, the harness-differentiated partial derivative or the configured noise entry; four control x calibration combinations, CSE on/off, sensors of 1..3 readings; unassigned entries appear as poison variables.",
    "Stand-in Eigen/Dense; the 'compiles' clause is decided by the compiler on plain double, not by SMT; noise values are concrete (they are printed into the source).",
    "symbolic execution of the compiled generated C++ (scalar substitution) + SMT equivalence", "E2-vsym", "5/C02")
chk("C07", "translation_validation",
    "The same model is run through the real Python filter and the generated C++ filter with inputs bound by name to the same z3 variables: prediction, per-sensor update on matched accept/reject paths (path conditions proved equivalent, inverse arguments proved equal and shared as cut-points), stored innovations read back after all sensors were updated, named covariance accessors; all proved equal for all inputs.",
    "Inverse as shared cut-point; Python validity gates assumed; stand-in Eigen.",
    "cross-language symbolic execution + SMT equivalence", "E1-symreal + E2-vsym", "5/C07")
chk("C08", "translation_validation",
    "Every BasicBlock-backed output of the Python backend and every generated C++ function is executed symbolically with CSE on and off; on == off proved per output for all inputs (no specification needed). Single-assignment / def-before-use of temporaries: compiler + text scan + poison variables (C++), execution (Python).",
    "Program dimension bounded by the corpus (P7 built for nested sharing; vacuity check that temporaries exist).",
    "differential symbolic execution (CSE on vs off) + SMT equivalence", "E1-symreal + E2-vsym", "5/C08")
chk("C10", "other",
    "The real Python tick/_process_model (symbolic held time, target time AND max_dt) and the real C++ tick/processUpdate (symbolic times, enumerated max_dt constants, all four control x calibration overload combinations) run with a recording filter; every feasible path within K full steps is explored and per leaf z3 proves direction, |step| <= max_dt, |sum - delta| <= 1e-9, and no step for equal times. Held time symbolic => one tick covers any tick sequence.",
    "Bounded: |delta| < (K+1)*max_dt (K=2 quick, 4 thorough); reals for doubles.",
    "bounded symbolic path exploration of the real runtimes + SMT validity per leaf", "E1-symreal + E2-vsym", "5/C10")
chk("C11", "other",
    "The real Python and C++ tick run with a filter whose process/sensor models are uninterpreted functions (the result term is the call trace) on symbolic timestamps in any order; per feasible leaf the returned estimate and the held (time, state, covariance) are proved equal to a reference fold written from the statement; no-readings tick leaves the held triple term-identical; control=None raises TypeError on every path (C++: negative compilation test of the static_assert).",
    "Bounded: readings per tick <= 2/3, full steps per propagation <= 1-3; `#define private public` in the harness TU to read the C++ held state.",
    "bounded symbolic path exploration with uninterpreted filter functions + SMT equivalence to a reference fold", "E1-symreal + E2-vsym", "5/C11")
chk("C12", "other",
    "For control x calibration x {0,1,2 sensors} the generated filter is instantiated in the real ManagedFilter.h (static_assert compatible, every applicable tick overload, wrap + virtual dispatch), ticked on symbolic values along concrete time schedules, and compared with process_model/sensor_model called by hand in the order C11 specifies: all named outputs and the held state equal (term identity after identifying inverse cut-points, else z3). The 'compiles' clause is decided by g++.",
    "Timestamps concrete here (symbolic in C10/C11); stand-in Eigen; compile clause by compiler not SMT.",
    "symbolic execution of generated filter under the real managed runtime + term/SMT equivalence; compiler for the compile clause", "E2-vsym", "5/C12")

chk("C13", "translation_validation",
    "(a) named vector/covariance constructors on symbolic values: each value is found (term identity) in the slot the harness derives from sorted names, the rest defaulted (0 / identity), unknown names and wrong shapes refused; (b) a model and its consistently renamed twin (all 6 sort-order permutations of 3 state names; hard name sets over states, controls, calibrations and reading names) are compiled separately with inputs bound through the renaming to the same z3 variables, and every named output of model/process_model/sensor_model (Python) and of the generated C++ filter is proved equal across the pair for all inputs; (c) same for set / reversed-list declarations and calibration declared as a list.",
    "Renamings/containers are an enumerated family (stated); names colliding with generated scaffolding identifiers excluded; inverse cut-points identified through the reading permutation after proving arguments equal.",
    "metamorphic twin symbolic execution (renaming / declaration order) + SMT equivalence", "E1-symreal + E2-vsym", "5/C13")
chk("C19", "translation_validation",
    "The strapdown reference model's update expressions (through a sympy->AST walker validated against sympy.N each run) and the compiled Python model of it (executed on symbolic reals, CSE on and off) are proved equal, state by state, for all 25 real inputs (|q x c|^2 != 0) to a rigid-body specification written in the harness with a hand-written Hamilton product; velocity/position via a guided chain (integral form over the implementation's own acceleration + acceleration == reference + congruence).",
    "Quick tier proves all 16 states of the symbolic model and 11-12 states of the compiled model; thorough all 16 x 3. UF-free (polynomial/rational identities).",
    "symbolic execution of the compiled reference model + SMT equivalence (QF_NRA) against an independent quaternion specification", "E1-symreal", "5/C19")

chk("C09", "other",
    "(a) one inductive step in exact arithmetic as a guided chain of z3 lemmas up to n=4, m=3 (predict: v'P'v is a sum of squares; update: Joseph identity for arbitrary K, X symmetric and XSX=X from the inverse axioms, KSK'=PH'K', sum-of-squares form, S positive definite) - with C04/C05 tying the code to these formulas, one step from an arbitrary valid state covers histories of any length; (b) the real assert_valid_covariance executed symbolically on diag(d), 0<=d<=1e4, n<=4 with np.linalg.eig replaced by its contract (|error| <= 4 n eps max|d|): the refusal path must be infeasible; (c) concrete histories on the unstubbed code (P2 singular-Jacobian model, 200-600 steps) as the replay target.",
    "Partial and stated: the lemmas are mathematics about the formulas; the gate clause covers diagonal matrices under a stated eigen-solver contract; LAPACK's floating-point behaviour and rounding in matrix products are outside the claim.",
    "SMT lemma chain (QF_NRA) + symbolic execution of the validity gate under an eigen-solver contract + concrete replay", "E1-symreal", "5/C09")
chk("C16", "translation_validation",
    "transform / mahalanobis / score of the real adapter run on a symbolic data matrix, symbolic noise and calibration (closed-form inverse, sensors of 1 and 2 readings, 1-2 rows, filter off/on); next to it the exported filter is driven by hand as the property states. Per feasible path: every transform entry == by-hand NIS, repeated call identical, mahalanobis == flattened transform, score == documented combination (sqrt as UF), get_params unchanged, each entry == closed-form z'S^-1 z over the recorded (z, S) plus the lemma S PD => NIS >= 0.",
    "Sign/validity gates assumed not to fire (non-negativity proved separately through the closed form + lemma; S PD is C09's lemma); rows bounded.",
    "symbolic execution of the real adapter + SMT equivalence against a by-hand filter run", "E1-symreal", "5/C16")
chk("C17", "translation_validation",
    "get_params/set_params/clone on an estimator with symbolic noise/configuration values: term-identical round trips, one-field updates for each of the five Config fields, unknown names refused. fit with scipy.optimize.minimize replaced by its contract (success forked; x an ARBITRARY real vector): failure => MinimizationFailure; success => same model/sensor-model/calibration/config objects, process noise keyed exactly by the controls with value max(1e-6, x_i) > 0 at the sorted position (z3), sensor noise keyed exactly by the original sensors/readings with the x entry of the documented flattening order; flatten o inverse-flatten identity for x >= 1e-6.",
    "What the real optimiser returns is outside the claim (its contract: finite vector of the right length); explicit configuration only.",
    "symbolic execution with a nondeterministic optimiser stub + SMT validity", "E1-symreal", "5/C17")
chk("C18", "other",
    "CrossHair on the real workflow classes: search from each state for a symbolic target (StateId, int, str) returns a shortest path along declared transitions ending in the target or raises ValueError exactly when unreachable / not a StateId; each transition appends its id to an arbitrary symbolic previous history; fitting raises ModelFitError iff fewer than 3 samples (symbolic-length data). All 'Confirmed over all paths', every reachability twin refuted. Grid clause: GridSearchCV replaced by its contract (arbitrary grid point, forked): the exported filter's configuration equals the selected point, defaults elsewhere.",
    "Cuts: _fit_model_impl no-op for transition conditions, train_test_split sentinel for the guard, GridSearchCV contract stub; grids <= 2 values per Config-level key.",
    "CrossHair symbolic execution (z3) with reachability twins + fork exploration of a grid-search contract stub", "E3-crosshair + E1-symreal", "5/C18")
