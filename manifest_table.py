ENGINES = [
    {"name": "E1-symreal", "path": "engine/symreal", "serves_properties": ["C01"], "kind_free_text": "symbolic execution of the unmodified formak Python on z3-backed reals (operator overloading + numpy shim, DART-style path exploration with solver pruning)"},
]
NOTES = "Solver-based checking (z3 5.1) of the real code; see DESIGN.md. Exit codes: 0 ok, 1 violation, 2 harness error/inconclusive machinery."
NA["C14"] = "structural accept/reject over sets/dicts of sympy objects: the only symbolic treatment is forking on every membership bit, i.e. enumeration of concrete definitions with the solver as bystander (DESIGN 11)"
NA["C15"] = "quantifies over PYTHONHASHSEED and container iteration order inside CPython/sympy; not encodable, verdict would be string equality of concrete generator runs (DESIGN 11)"

chk("C01", "translation_validation",
    "For each corpus program and both CSE settings the real python.compile(...).model is executed on symbolic reals; every output slot is proved equal (z3 unsat of the negation) to the user's update expression for ALL real inputs; CSE on == CSE off likewise. Bounded in the program dimension only (stated corpus + seeded random grammar members).",
    "Trusts z3, reals-for-doubles, UF abstraction of sin/cos/exp/sqrt with sound axioms, the numpy shim and the corpus renderers (validated at concrete points on every run).",
    "symbolic execution of the real Python + SMT equivalence (z3, QF_UFNRA)", "E1-symreal", "5/C01")
