ENGINES = [
    {"name": "E1-symreal", "path": "engine/symreal", "serves_properties": ["C01", "C03", "C04", "C05", "C06"], "kind_free_text": "symbolic execution of the unmodified formak Python on z3-backed reals (operator overloading + numpy shim, DART-style path exploration with solver pruning)"},
]
NOTES = "Solver-based checking (z3 5.1) of the real code; see DESIGN.md. Exit codes: 0 ok, 1 violation, 2 harness error/inconclusive machinery."
NA["C14"] = "structural accept/reject over sets/dicts of sympy objects: the only symbolic treatment is forking on every membership bit, i.e. enumeration of concrete definitions with the solver as bystander (DESIGN 11)"
NA["C15"] = "quantifies over PYTHONHASHSEED and container iteration order inside CPython/sympy; not encodable, verdict would be string equality of concrete generator runs (DESIGN 11)"

chk("C01", "translation_validation",
    "For each corpus program and both CSE settings the real python.compile(...).model is executed on symbolic reals; every output slot is proved equal (z3 unsat of the negation) to the user's update expression for ALL real inputs; CSE on == CSE off likewise. Bounded in the program dimension only (stated corpus + seeded random grammar members).",
    "Trusts z3, reals-for-doubles, UF abstraction of sin/cos/exp/sqrt with sound axioms, the numpy shim and the corpus renderers (validated at concrete points on every run).",
    "symbolic execution of the real Python + SMT equivalence (z3, QF_UFNRA)", "E1-symreal", "5/C01")

chk("C03", "translation_validation",
    "Every entry of the real filter's process / control / sensor Jacobian, executed on symbolic reals, is proved equal for ALL evaluation points to the partial derivative computed by the harness's own differentiator at the row/column derived from sorted names; rectangular cases (readings != states, calibration present, controls > states) are in the corpus.",
    "Trusts z3, the harness differentiator (validated by central differences each run), UF abstraction with derivative rules, gates assumed.",
    "symbolic execution of the real Python + SMT equivalence against an independent differentiator", "E1-symreal", "5/C03")
chk("C04", "translation_validation",
    "process_model on symbolic dt/state/P/control/calibration/noise: state == f and every covariance entry == (G P G^T + V M V^T)[i][j] for all reals (all symmetric P), inputs term-identical after the call, second call term-identical. Program dimension bounded by the corpus.",
    "Validity gates are assumptions here (C09 covers them); witnesses restricted to diagonally dominant P so that replay passes the gates.",
    "symbolic execution of the real Python + SMT equivalence (z3)", "E1-symreal", "5/C04")
chk("C05", "translation_validation",
    "sensor_model on symbolic inputs with the matrix inverse as a shared cut-point: recorded S, recorded innovation, inverse argument, returned state and covariance are proved equal to the Kalman correction formulas for all inputs and all symmetric P, for sensors with 1..3 readings, with and without calibration, filter off and on (accept path); consequences (z=h(x) => unchanged, symmetric posterior, posterior <= prior for m=1) as separate validity queries.",
    "np.linalg.inv treated as an uninterpreted function of its argument (argument proved equal to S); gates assumed; posterior<=prior by nlsat only for m=1.",
    "symbolic execution of the real Python + SMT equivalence with inverse cut-point", "E1-symreal", "5/C05")
chk("C06", "translation_validation",
    "Decision equivalence as validity queries: remove_innovation's returned condition, and the reject-leaf path condition of sensor_model, are equivalent to z'S^-1 z > k*sqrt(2m)+m for all k>0, z, S^-1 (m=1..3, thorough up to 8); reject returns the input objects with unchanged terms and records z-h; disabled filtering has no reject path. C++ side joins when E2 is built.",
    "sqrt(2m) is the exact rational of the double the code computes; everything else over reals.",
    "symbolic execution (path conditions) + SMT validity of decision equivalence", "E1-symreal", "5/C06")
