#!/usr/bin/env python3
"""Seeded-change bookkeeping.
  tools_seed.py import <wt-dir> <pid> <a|b>     verify the demo in a scratch worktree (passes clean, fails patched) and copy to seeded/<pid>-<x>/
  tools_seed.py detect <seed-id> [CHECK ...]    apply the patch to /repo, run the given checks (default: the seed's property), undo, record
"""
import json, os, shutil, subprocess, sys, time

VERIF = os.path.dirname(os.path.abspath(__file__))
REPO = "/repo"
SCR = "/tmp/wt-verify"


def sh(cmd, **kw):
    return subprocess.run(cmd, shell=True, capture_output=True, text=True, **kw)


def run_demo(root, demo_rel):
    env = dict(os.environ, PYTHONPATH=f"{root}/py", MPLBACKEND="Agg")
    if demo_rel.endswith(".sh"):
        return subprocess.run(["sh", demo_rel], cwd=root, env=env, capture_output=True, text=True, timeout=1200)
    return subprocess.run(["/venv/bin/python", demo_rel], cwd=root, env=env, capture_output=True, text=True, timeout=1200)


def do_import(wt, pid, x):
    src = os.path.join(wt, "_seed", x)
    sid = f"{pid}-{x}"
    dst = os.path.join(VERIF, "seeded", sid)
    demo = [f for f in os.listdir(src) if f.startswith("demo")][0]
    if os.path.exists(SCR):
        sh(f"git -C {REPO} worktree remove --force {SCR}")
    r = sh(f"git -C {REPO} worktree add -q --detach {SCR} HEAD")
    assert r.returncode == 0, r.stderr
    try:
        os.makedirs(os.path.join(SCR, "_seed", x), exist_ok=True)
        shutil.copytree(src, os.path.join(SCR, "_seed", x), dirs_exist_ok=True)
        rel = f"_seed/{x}/{demo}"
        clean = run_demo(SCR, rel)
        ap = sh(f"git -C {SCR} apply _seed/{x}/patch.diff")
        patched = run_demo(SCR, rel) if ap.returncode == 0 else None
        ok = clean.returncode == 0 and ap.returncode == 0 and patched.returncode != 0
        print(f"{sid}: demo clean rc={clean.returncode}; apply rc={ap.returncode}; demo patched rc={patched.returncode if patched else None} -> {'OK' if ok else 'REJECTED'}")
        if not ok:
            print((clean.stdout + clean.stderr)[-800:])
            if patched:
                print((patched.stdout + patched.stderr)[-800:])
            return 1
        os.makedirs(dst, exist_ok=True)
        shutil.copytree(src, dst, dirs_exist_ok=True, ignore=shutil.ignore_patterns("*.txt", "*.full", "__pycache__"))
        meta = json.load(open(os.path.join(dst, "meta.json")))
        meta["id"] = sid
        meta["base_commit"] = sh(f"git -C {REPO} rev-parse HEAD").stdout.strip()
        meta["verified"] = {"demo": demo, "demo_clean_rc": clean.returncode, "demo_patched_rc": patched.returncode, "demo_patched_tail": (patched.stdout + patched.stderr)[-400:], "how": "scratch worktree of /repo HEAD: demo run clean, patch applied with git apply, demo run again", "tests": "agent-reported passing set unchanged (tests_passing_before/after); re-run by tools_seed.py tests"}
        meta.setdefault("detected_by", {})
        json.dump(meta, open(os.path.join(dst, "meta.json"), "w"), indent=1)
        return 0
    finally:
        sh(f"git -C {REPO} worktree remove --force {SCR}")


def do_detect(sid, checks):
    d = os.path.join(VERIF, "seeded", sid)
    meta = json.load(open(os.path.join(d, "meta.json")))
    checks = checks or [meta["property"]]
    st = sh(f"git -C {REPO} status --porcelain").stdout.strip()
    assert not st, f"/repo not clean: {st}"
    ap = sh(f"git -C {REPO} apply {d}/patch.diff")
    assert ap.returncode == 0, ap.stderr
    res = {}
    try:
        for c in checks:
            t0 = time.time()
            r = subprocess.run([os.path.join(VERIF, "bin/check"), c, "--tier", "quick"], capture_output=True, text=True, cwd=VERIF, timeout=3600)
            viol = [l for l in r.stdout.splitlines() if l.startswith("VIOLATION")]
            what = [l.strip() for l in r.stdout.splitlines() if l.strip().startswith("what:")]
            res[c] = {"rc": r.returncode, "violations": len(viol), "first": what[0][:300] if what else "", "wall_s": round(time.time() - t0, 1)}
            print(f"{sid} vs {c}: rc={r.returncode} violations={len(viol)} {what[0][:200] if what else ''}")
            if r.returncode not in (0, 1):
                print(r.stdout[-1500:], r.stderr[-500:])
    finally:
        sh(f"git -C {REPO} checkout -- .")
        assert not sh(f"git -C {REPO} status --porcelain").stdout.strip()
    meta.setdefault("detected_by", {}).update(res)
    json.dump(meta, open(os.path.join(d, "meta.json"), "w"), indent=1)
    return 0


ALL = ["C01", "C02", "C03", "C04", "C05", "C06", "C07", "C08", "C09", "C10", "C11", "C12", "C13", "C16", "C17", "C18", "C19"]


def matrix_one(sid, checks=None, procs="6"):
    """Detection matrix for one seed in its own scratch worktree (FORMAK_REPO), so that several can run in parallel."""
    d = os.path.join(VERIF, "seeded", sid)
    meta = json.load(open(os.path.join(d, "meta.json")))
    wt = f"/tmp/wt-seed-{sid}"
    ev = f"/tmp/ev-seed-{sid}"
    sh(f"git -C {REPO} worktree remove --force {wt}")
    assert sh(f"git -C {REPO} worktree add -q --detach {wt} HEAD").returncode == 0
    res = {}
    try:
        ap = sh(f"git -C {wt} apply {d}/patch.diff")
        assert ap.returncode == 0, ap.stderr
        os.makedirs(ev, exist_ok=True)
        env = dict(os.environ, FORMAK_REPO=wt, VERIF_EVIDENCE_DIR=ev, VERIF_PROCS=procs)
        for c in checks or ALL:
            t0 = time.time()
            try:
                r = subprocess.run([os.path.join(VERIF, "bin/check"), c, "--tier", "quick"], capture_output=True, text=True, cwd=VERIF, timeout=2400, env=env)
                viol = [l for l in r.stdout.splitlines() if l.startswith("VIOLATION")]
                what = [l.strip() for l in r.stdout.splitlines() if l.strip().startswith("what:")]
                res[c] = {"rc": r.returncode, "violations": len(viol), "first": what[0][:240] if what else "", "wall_s": round(time.time() - t0, 1)}
            except subprocess.TimeoutExpired:
                res[c] = {"rc": "timeout", "violations": 0, "first": "", "wall_s": round(time.time() - t0, 1)}
            print(f"{sid} vs {c}: {res[c]['rc']} {res[c]['violations']} {res[c]['first'][:120]}", flush=True)
    finally:
        sh(f"git -C {REPO} worktree remove --force {wt}")
        shutil.rmtree(ev, ignore_errors=True)
    meta["detected_by"] = res
    meta["detection_run"] = {"base": sh(f"git -C {REPO} rev-parse --short HEAD").stdout.strip(), "verif": sh(f"git -C {VERIF} rev-parse --short HEAD").stdout.strip(), "how": "scratch worktree of /repo HEAD with the patch applied; every check's quick tier run with FORMAK_REPO pointing at it"}
    json.dump(meta, open(os.path.join(d, "meta.json"), "w"), indent=1)
    return 0


def table():
    rows = []
    for sid in sorted(os.listdir(os.path.join(VERIF, "seeded"))):
        mp = os.path.join(VERIF, "seeded", sid, "meta.json")
        if not os.path.exists(mp):
            continue
        m = json.load(open(mp))
        det = m.get("detected_by", {})
        hit = [c for c, v in det.items() if v.get("rc") == 1]
        err = [c for c, v in det.items() if v.get("rc") not in (0, 1)]
        rows.append(f"| {sid} | {m.get('summary', '')[:150].replace('|', '/')} | {m.get('needs', '')[:120].replace('|', '/')} | {', '.join(hit) or '**none**'} | {', '.join(err)} |")
    print("| seed | change | needs | caught by (quick tier) | harness error |\n|---|---|---|---|---|")
    print("\n".join(rows))


if __name__ == "__main__":
    if sys.argv[1] == "matrix":
        sys.exit(matrix_one(sys.argv[2], sys.argv[3:] or None))
    if sys.argv[1] == "table":
        table()
        sys.exit(0)
    if sys.argv[1] == "import":
        sys.exit(do_import(sys.argv[2], sys.argv[3], sys.argv[4]))
    if sys.argv[1] == "detect":
        sys.exit(do_detect(sys.argv[2], sys.argv[3:]))
