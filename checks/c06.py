"""C06 - a reading is discarded iff NIS > k*sqrt(2m)+m; a discard changes nothing (E1 + E2)."""
from __future__ import annotations

import json
import math
import random

import numpy as np
import z3

from corpus import programs as CP
from engine.symreal import expr as X
from engine.symreal.core import SymBool, SymReal, explore, lift, qval
from engine.symreal.shim import installed

from . import pyh
from .common import Part, Q, Report, dyadic_box, finish, free_vars, pmap, quiet, solve, tier_timeout_ms, write_replay
from .oblig import env_from_model, prove_equal, prove_valid, reach

PID = "C06"


def spec_decision(k, zs, Sinv, m, const_k=None):
    """z^T S_inv z > k*c_m + m with c_m the exact rational of the double sqrt(2m) (the one double in the claim).
    For a compile-time constant k (generated C++) the threshold is the double the code folds: fl(fl(k*c_m)+m)."""
    nis = z3.RealVal(0)
    for i in range(m):
        for j in range(m):
            nis = nis + zs[i] * Sinv[i][j] * zs[j]
    if const_k is not None:
        return nis > qval(float(const_k) * math.sqrt(2 * m) + m), nis
    return nis > k * qval(math.sqrt(2 * m)) + m, nis


def float_decision_impl(kval, z, Sinv):
    with quiet():
        p = CP.P1()
        ekf = pyh.build_ekf_float(p, {}, k=kval)
        m = len(z)
        return bool(ekf.remove_innovation(np.array(z, dtype=float).reshape(m, 1), np.array(Sinv, dtype=float).reshape(m, m)))


def float_decision_spec(kval, z, Sinv):
    if kval is None:
        return False
    m = len(z)
    z = np.array(z, dtype=float).reshape(m, 1)
    S = np.array(Sinv, dtype=float).reshape(m, m)
    return bool((z.T @ S @ z)[0, 0] > kval * math.sqrt(2 * m) + m)


def task_decision(m, tier, seed):
    """(i) remove_innovation on symbolic k, innovation, S_inv."""
    part = Part()
    part.program("P1-xy")
    part.fn("python.ExtendedKalmanFilter.remove_innovation")
    p = CP.P1()
    env = pyh.input_env(p)
    pn, sn = pyh.noise_env(p)
    k = z3.Real("k")
    zs = [z3.Real(f"z{i}") for i in range(m)]
    Sinv = [[z3.Real(f"s{i}{j}") for j in range(m)] for i in range(m)]
    assumes = [k > 0] + pyh.noise_positive(pn, sn)
    key_base = f"py/remove_innovation/m={m}"

    def harness():
        with installed(), quiet():
            ekf = pyh.build_ekf_sym(p, env, pn, sn, k=SymReal(k))
            inn = np.empty((m, 1), dtype=object)
            for i in range(m):
                inn[i, 0] = SymReal(zs[i])
            S = np.empty((m, m), dtype=object)
            for i in range(m):
                for j in range(m):
                    S[i, j] = SymReal(Sinv[i][j])
            return ekf.remove_innovation(inn, S)

    # the decision object is returned, not branched on: single path
    leaves = explore(harness, assumes=assumes, config={"gate": "assume"})
    part.leaves(leaves)
    if len(leaves) != 1:
        part.harness_error(f"{key_base}: {leaves}")
        return part.d
    l = leaves[0]
    spec, nis = spec_decision(k, zs, Sinv, m)

    def concrete_witness(rng):
        kk = rng.choice([1.0, 3.0, 5.0])
        z = [rng.randint(-24, 24) / 8.0 for _ in range(m)]
        A = [[rng.randint(-8, 8) / 8.0 for _ in range(m)] for _ in range(m)]
        S = [[sum(A[i][t] * A[j][t] for t in range(m)) + (0.5 if i == j else 0) for j in range(m)] for i in range(m)]
        return kk, z, S

    if l.status != "ok":
        rng = random.Random(seed)
        for _ in range(5):
            kk, z, S = concrete_witness(rng)
            try:
                float_decision_impl(kk, z, S)
            except Exception as ex:
                path = write_replay(PID, {"key": key_base + "/raises", "info": {"kind": "decision", "m": m}, "inputs": {"k": kk, "z": z, "S_inv": S}, "exception": f"{type(ex).__name__}: {ex}"})
                part.violation(key_base + "/raises", f"remove_innovation raises {type(ex).__name__}: {ex} for m={m}", path)
                return part.d
        part.harness_error(f"{key_base}: symbolic run raised {l} but concrete runs do not")
        return part.d
    dec = l.value
    if isinstance(dec, np.ndarray):
        if dec.size != 1:
            rng = random.Random(seed)
            kk, z, S = concrete_witness(rng)
            try:
                r = float_decision_impl(kk, z, S)
                exc = None
            except Exception as ex:
                exc = f"{type(ex).__name__}: {ex}"
            path = write_replay(PID, {"key": key_base + "/not-a-decision", "info": {"kind": "decision", "m": m}, "inputs": {"k": kk, "z": z, "S_inv": S}, "exception": exc})
            part.violation(key_base + "/not-a-decision", f"remove_innovation returns an array of shape {dec.shape} instead of one decision for m={m} ({exc})", path)
            return part.d
        dec = dec.reshape(-1)[0]
    if not isinstance(dec, SymBool):
        part.harness_error(f"{key_base}: decision is {type(dec)}")
        return part.d
    tmo = tier_timeout_ms(tier)
    q = solve(assumes + [dec.t != spec], tmo, key_base)
    part.record(q, f"{key_base}: decision <=> z'S^-1 z > k*sqrt(2m)+m")
    if q.status == "sat":
        vars_ = free_vars([dec.t, spec])
        cands = []
        # dyadic witness so that the boundary replays bit-exactly where sqrt(2m) is exact (m = 2, 8)
        q2 = solve(assumes + [dec.t != spec] + dyadic_box(vars_, -4, 4, 8), 10000)
        if q2.status == "sat":
            cands.append(env_from_model(q2.model, vars_))
        cands.append(env_from_model(q.model, vars_))
        for e in cands:
            part.d["witnesses"] += 1
            kk = e["k"]
            z = [e.get(f"z{i}", 0.0) for i in range(m)]
            S = [[e.get(f"s{i}{j}", 0.0) for j in range(m)] for i in range(m)]
            try:
                got = float_decision_impl(kk, z, S)
            except Exception as ex:
                got = f"{type(ex).__name__}: {ex}"
            want = float_decision_spec(kk, z, S)
            if got != want:
                path = write_replay(PID, {"key": key_base, "info": {"kind": "decision", "m": m}, "inputs": {"k": kk, "z": z, "S_inv": S}, "got": got, "want": want})
                part.violation(key_base, f"remove_innovation decides {got} but NIS > k*sqrt(2m)+m is {want} at k={kk}, z={z}, S_inv={S}", path)
                return part.d
        part.d["inconclusive"].append(key_base + " (sat only where floats cannot represent the boundary)")
    # reachability of both decisions
    reach(part, key_base + "/reject-reachable", assumes + [spec])
    reach(part, key_base + "/accept-reachable", assumes + [z3.Not(spec)])
    part.sample({"m": m, "impl": str(z3.simplify(dec.t))[:200]})
    return part.d


def float_sensor(p, key, e, kval):
    with quiet():
        pn, sn = pyh.noise_vals_from_env(p, e)
        ekf = pyh.build_ekf_float(p, e, k=kval, pn=pn, sn=sn)
        st = ekf.State(**{s: float(e[s]) for s in p.state})
        cov = ekf.Covariance.from_data(pyh.float_cov(p.state, e))
        rd = ekf.make_reading(key, **{r: float(e[f"z_{key}_{r}"]) for r in p.sensors[key]})
        st0, P0 = st.data.copy(), cov.data.copy()
        r = ekf.sensor_model(st, cov, sensor_key=key, sensor_reading=rd)
        S = np.array(ekf.sensor_prediction_uncertainty[key], dtype=float)
        inn = np.array(ekf.innovations[key], dtype=float).reshape(-1)
        m = len(inn)
        want = kval is not None and float((inn.reshape(1, m) @ np.linalg.inv(S) @ inn.reshape(m, 1))[0, 0]) > kval * math.sqrt(2 * m) + m
        return {
            "rejected_same_objects": r.state is st and r.covariance is cov,
            "state_equal": bool(np.array_equal(np.array(r.state.data, dtype=float), st0)),
            "cov_equal": bool(np.array_equal(np.array(r.covariance.data, dtype=float), P0)),
            "innov": inn.tolist(),
            "want_reject": bool(want),
        }


def task_sensor(p, key, kmode, tier, seed):
    """(ii)/(iii): reject path of the real sensor_model leaves everything unchanged; None never rejects."""
    part = Part()
    part.program(p.id)
    part.fn("python.ExtendedKalmanFilter.sensor_model", "python.ExtendedKalmanFilter.remove_innovation")
    env = pyh.input_env(p)
    pn, sn = pyh.noise_env(p)
    ss, rs = p.s_state(), p.s_readings(key)
    m = len(rs)
    zin = {r: z3.Real(f"z_{key}_{r}") for r in rs}
    hspec, aH = pyh.spec_sensor(p, key, env)
    aO = []
    for k2 in p.sensors:
        aO += pyh.spec_sensor(p, k2, env)[1]
    _, aJ = pyh.spec_jacobian(p, p.sensors[key], rs, ss, env)
    k = z3.Real("k")
    assumes = aO + aJ + pyh.noise_positive(pn, sn) + ([k > 0] if kmode == "sym" else [])
    Psym, Pvars = pyh.sym_cov(p.state)
    key_base = f"py/sensor_model/{p.id}/{key}/k={kmode}"
    kval = SymReal(k) if kmode == "sym" else None

    def harness():
        with installed(), quiet():
            ekf = pyh.build_ekf_sym(p, env, pn, sn, k=kval)
            st = ekf.State(**pyh.sym_state_kwargs(p.state, env))
            cov = ekf.Covariance.from_data(Psym.copy())
            rd = ekf.make_reading(key, **{r: SymReal(zin[r]) for r in rs})
            snap = (st.data.copy(), cov.data.copy())
            r = ekf.sensor_model(st, cov, sensor_key=key, sensor_reading=rd)
            return r, st, cov, snap, ekf.innovations.get(key)

    leaves = explore(harness, assumes=assumes, config={"gate": "assume", "inverse": "cut"})
    part.leaves(leaves)
    tmo = tier_timeout_ms(tier)

    def a_concrete_env(rng, far):
        e = {nm: rng.randint(-16, 16) / 8.0 for nm in env}
        e.update(pyh.seeded_cov_env(p.state, rng))
        for k2 in p.sensors:
            for r in p.sensors[k2]:
                e[f"sn_{k2}_{r}"] = rng.choice([0.25, 0.5, 1.0])
        for r in rs:
            e[f"z_{key}_{r}"] = round(X.evalf(p.sensors[key][r], e) + (rng.choice([-40.0, 40.0]) if far else rng.randint(-2, 2) / 16.0), 6)
        return e

    bad = [l for l in leaves if l.status != "ok"]
    if bad:
        rng = random.Random(seed)
        for far in (True, False, True, False):
            e = a_concrete_env(rng, far)
            try:
                pyh.gate_guard(lambda: float_sensor(p, key, e, 3.0 if kmode == "sym" else None))
            except pyh.GateRejected:
                continue
            except Exception as ex:
                path = write_replay(PID, {"key": key_base + "/raises", "info": {"kind": "sensor", "program": p.id, "sensor": key, "k": 3.0 if kmode == "sym" else None}, "inputs": e, "exception": f"{type(ex).__name__}: {ex}"})
                part.violation(key_base + "/raises", f"sensor_model raises {type(ex).__name__}: {ex} (m={m}, filtering on)", path)
                return part.d
        part.harness_error(f"{key_base}: symbolic path raised {bad[0]}, not reproduced concretely")
        return part.d
    rej = [l for l in leaves if l.value[0].state is l.value[1] and l.value[0].covariance is l.value[2]]
    acc = [l for l in leaves if l not in rej]
    if kmode == "none":
        ok = len(leaves) == 1 and len(rej) == 0
        part.record(Q("unsat" if ok else "sat", None, 0.0, ""), f"{key_base}: filtering disabled => single accept path, no reject leaf")
        if not ok:
            rng = random.Random(seed)
            e = a_concrete_env(rng, True)
            path = write_replay(PID, {"key": key_base + "/rejects-when-disabled", "info": {"kind": "sensor", "program": p.id, "sensor": key, "k": None}, "inputs": e})
            part.violation(key_base + "/rejects-when-disabled", "a reject path exists although innovation filtering is disabled", path)
        return part.d
    if len(rej) != 1 or len(acc) != 1:
        # e.g. a discard that returns copies / modified values: decide by a concrete far-away reading
        rng = random.Random(seed)
        for _ in range(4):
            e = a_concrete_env(rng, True)
            try:
                got = pyh.gate_guard(lambda: float_sensor(p, key, e, 3.0))
            except pyh.GateRejected:
                continue
            if got["want_reject"] and not (got["state_equal"] and got["cov_equal"]):
                path = write_replay(PID, {"key": key_base + "/discard-changes-estimate", "info": {"kind": "sensor", "program": p.id, "sensor": key, "k": 3.0}, "inputs": e, "got": got})
                part.violation(key_base + "/discard-changes-estimate", f"a reading with NIS above the threshold changed the estimate: {got}", path)
                return part.d
        part.harness_error(f"{key_base}: expected one reject and one accept leaf, got {len(rej)}/{len(acc)}")
        return part.d
    lr, la = rej[0], acc[0]
    r, st, cov, snap, innov = lr.value
    cut = lr.cuts[0]
    Xc = pyh.mat_z3(cut["res"])
    inn_spec = [zin[rr] - hspec[rr] for rr in rs]
    spec, _ = spec_decision(k, inn_spec, Xc, m)
    # reject-leaf path condition <=> specification decision (over the shared inverse symbols)
    q = prove_valid(part, f"{key_base}: reject path condition <=> NIS > k*sqrt(2m)+m", lr.pc_term() == spec, lr.assumes, tmo)
    q2 = prove_valid(part, f"{key_base}: accept path condition <=> not(NIS > k*sqrt(2m)+m)", la.pc_term() == z3.Not(spec), la.assumes, tmo)
    if q.status == "sat" or q2.status == "sat":
        # concrete confirmation through the real code
        model = q.model if q.status == "sat" else q2.model
        rng = random.Random(seed)
        cands = [a_concrete_env(rng, far) for far in (True, False, True, False, True, False)]
        for e in cands:
            try:
                got = pyh.gate_guard(lambda: float_sensor(p, key, e, 3.0))
            except pyh.GateRejected:
                continue
            decided_reject = got["state_equal"] and got["cov_equal"]
            if decided_reject != got["want_reject"]:
                path = write_replay(PID, {"key": key_base + "/decision", "info": {"kind": "sensor", "program": p.id, "sensor": key, "k": 3.0}, "inputs": e, "got": got})
                part.violation(key_base + "/decision", f"sensor_model {'discarded' if decided_reject else 'applied'} a reading whose NIS test says {'discard' if got['want_reject'] else 'apply'}", path)
                return part.d
        part.d["inconclusive"].append(key_base + " decision differs in the abstraction; not reproduced")
    # unchanged objects and terms on the reject leaf
    same = all(lift(a).eq(lift(b)) for A, B in zip(snap, (st.data, cov.data)) for a, b in zip(A.reshape(-1), B.reshape(-1)))
    part.record(Q("unsat" if same else "sat", None, 0.0, ""), f"{key_base}: reject returns the input objects, terms unchanged")
    if not same:
        e = a_concrete_env(random.Random(seed), True)
        path = write_replay(PID, {"key": key_base + "/discard-changes-estimate", "info": {"kind": "sensor", "program": p.id, "sensor": key, "k": 3.0}, "inputs": e})
        part.violation(key_base + "/discard-changes-estimate", "reject path returns modified state/covariance terms", path)
    if innov is None:
        part.harness_error(f"{key_base}: innovation not recorded on reject path")
    else:
        for i, rr in enumerate(rs):
            prove_equal(part, PID, f"{key_base}: innovation[{rr}] recorded on the reject path == z-h", lift(innov[i, 0]), inn_spec[i], assumes + lr.pc, tmo, key=key_base + "/innovation-on-reject")
    reach(part, key_base + "/reject-reachable", assumes + lr.pc)
    reach(part, key_base + "/accept-reachable", assumes + la.pc)
    return part.d


def float_sequence(p, order, e, kval):
    """Real code in floats: one filter object, sensors updated in the given order, each from the same prior."""
    with quiet():
        pn, sn = pyh.noise_vals_from_env(p, e)
        ekf = pyh.build_ekf_float(p, e, k=kval, pn=pn, sn=sn)
        out = []
        for key in order:
            st = ekf.State(**{s: float(e[s]) for s in p.state})
            cov = ekf.Covariance.from_data(pyh.float_cov(p.state, e))
            rd = ekf.make_reading(key, **{r: float(e[f"z_{key}_{r}"]) for r in p.sensors[key]})
            r = ekf.sensor_model(st, cov, sensor_key=key, sensor_reading=rd)
            S = np.array(ekf.sensor_prediction_uncertainty[key], dtype=float)
            inn = np.array(ekf.innovations[key], dtype=float).reshape(-1)
            m = len(inn)
            nis = float((inn.reshape(1, m) @ np.linalg.inv(S) @ inn.reshape(m, 1))[0, 0])
            out.append({"sensor": key, "discarded": bool(r.state is st and r.covariance is cov), "nis": nis, "threshold": kval * math.sqrt(2 * m) + m})
        return out


def task_sequence(p, order, tier, seed):
    """History dimension: several sensors of different sizes updated on ONE filter object; every decision in the
    sequence must be the specification's decision for *its own* reading dimension (no state carried between calls)."""
    part = Part()
    part.program(p.id)
    part.fn("python.ExtendedKalmanFilter.sensor_model", "python.ExtendedKalmanFilter.remove_innovation")
    env = pyh.input_env(p)
    pn, sn = pyh.noise_env(p)
    k = z3.Real("k")
    zin = {key: {r: z3.Real(f"z_{key}_{r}") for r in p.sensors[key]} for key in order}
    aO = []
    for k2 in p.sensors:
        aO += pyh.spec_sensor(p, k2, env)[1]
        aO += pyh.spec_jacobian(p, p.sensors[k2], p.s_readings(k2), p.s_state(), env)[1]
    assumes = aO + pyh.noise_positive(pn, sn) + [k > 0]
    Psym, _ = pyh.sym_cov(p.state)
    key_base = f"py/sequence/{p.id}/{'>'.join(order)}"
    tmo = tier_timeout_ms(tier)

    def harness():
        with installed(), quiet():
            ekf = pyh.build_ekf_sym(p, env, pn, sn, k=SymReal(k))
            flags = []
            for key in order:
                st = ekf.State(**pyh.sym_state_kwargs(p.state, env))
                cov = ekf.Covariance.from_data(Psym.copy())
                rd = ekf.make_reading(key, **{r: SymReal(zin[key][r]) for r in p.sensors[key]})
                r = ekf.sensor_model(st, cov, sensor_key=key, sensor_reading=rd)
                flags.append(r.state is st and r.covariance is cov)
            return flags

    leaves = explore(harness, assumes=assumes, config={"gate": "assume", "inverse": "cut"})
    part.leaves(leaves)
    if any(l.status != "ok" for l in leaves):
        part.harness_error(f"{key_base}: {[l for l in leaves if l.status != 'ok'][:2]}")
        return part.d
    reported = False
    for l in leaves:
        flags = l.value
        for idx, key in enumerate(order):
            rs = p.s_readings(key)
            m = len(rs)
            hspec, _ = pyh.spec_sensor(p, key, env)
            Xc = pyh.mat_z3(l.cuts[idx]["res"])
            spec, _ = spec_decision(k, [zin[key][r] - hspec[r] for r in rs], Xc, m)
            claim = spec if flags[idx] else z3.Not(spec)
            q = solve(l.assumes + l.pc + [z3.Not(claim)], tmo)
            part.record(q, f"{key_base}: call {idx + 1} ({key}, m={m}) {'discarded' if flags[idx] else 'applied'} on path {''.join('T' if d else 'F' for d in l.decisions[-len(order):])} => NIS test for m={m} agrees")
            if q.status == "sat" and not reported:
                rng = random.Random(seed)
                for kval in (5.0, 3.0, 1.0, 8.0):
                    for _ in range(40):
                        e = {nm: rng.randint(-16, 16) / 8.0 for nm in env}
                        e.update(pyh.seeded_cov_env(p.state, rng))
                        for k2 in p.sensors:
                            for r in p.sensors[k2]:
                                e[f"sn_{k2}_{r}"] = rng.choice([0.25, 0.5, 1.0])
                        for key2 in order:
                            for r in p.sensors[key2]:
                                e[f"z_{key2}_{r}"] = round(X.evalf(p.sensors[key2][r], e) + rng.randint(-48, 48) / 8.0, 6)
                        try:
                            got = pyh.gate_guard(lambda: float_sequence(p, order, e, kval))
                        except pyh.GateRejected:
                            continue
                        part.d["witnesses"] += 1
                        bad = [g for g in got if g["discarded"] != (g["nis"] > g["threshold"])]
                        if bad:
                            path = write_replay(PID, {"key": f"py/sequence/{p.id}", "info": {"kind": "sequence", "program": p.id, "order": list(order), "k": kval}, "inputs": e, "got": got})
                            part.violation(f"py/sequence/{p.id}", f"after updating {order[0]} first, the filter {'discarded' if bad[0]['discarded'] else 'applied'} a {bad[0]['sensor']} reading with NIS={bad[0]['nis']:.4g} against threshold {bad[0]['threshold']:.4g} (k={kval})", path)
                            reported = True
                            break
                    if reported:
                        break
                if not reported:
                    part.d["inconclusive"].append(key_base + ": decision differs in the abstraction; not reproduced")
                    reported = True
    part.sample({"impl": "python sequence", "program": p.id, "order": list(order), "leaves": len(leaves)})
    return part.d


def task_py_boundary(tier, seed):
    """The boundary in doubles, Python side: the decision of the real remove_innovation equals
    NIS > fl(fl(k * fl(sqrt(2m))) + m) for NIS on the boundary and 1..3 ulps on either side (the property names the
    boundary: 'strictly greater').  The innovation is e1 and S^-1 = diag(n, 1, ..), so the quadratic form is exactly the
    double n.  Concrete sweep (the C++ helper has the corresponding QF_FP query; the Python arithmetic goes through
    numpy.matmul, which is outside the encodable fragment)."""
    import dataclasses

    part = Part()
    part.program("P1-xy")
    part.fn("python.ExtendedKalmanFilter.remove_innovation")
    p = CP.P1()
    with quiet():
        ekf = pyh.build_ekf_float(p, {}, k=1.0)
    ks = [i / 20.0 for i in range(1, 121)] + [0.3, 2.5758293035489, 3.0902323061678132, 1e-3, 17.25, 100.0]
    if tier == "quick":
        ks = ks[::3] + [2.25, 5.65, 0.2, 0.05, 0.5]
    n_pts = 0
    for m in (1, 2, 3, 4, 5, 6):
        inn = np.zeros((m, 1))
        inn[0, 0] = 1.0
        for k in ks:
            try:
                ekf.config = dataclasses.replace(ekf.config, innovation_filtering=k)
            except Exception:
                with quiet():
                    ekf = pyh.build_ekf_float(p, {}, k=k)
            thr = k * math.sqrt(2 * m) + m
            cands = [thr]
            up = dn = thr
            for _ in range(3):
                up, dn = math.nextafter(up, math.inf), math.nextafter(dn, -math.inf)
                cands += [up, dn]
            for n in cands:
                Sinv = np.eye(m)
                Sinv[0, 0] = n
                got = bool(ekf.remove_innovation(inn, Sinv))
                want = n > thr
                n_pts += 1
                if got != want:
                    part.record(Q("sat", None, 0.0, ""), "py/remove_innovation/boundary-in-doubles")
                    path = write_replay(PID, {"key": "py/remove_innovation/boundary", "info": {"kind": "py-boundary"}, "inputs": {"k": k, "m": m, "nis": n}, "got": got, "want": want})
                    part.violation("py/remove_innovation/boundary", f"remove_innovation returns {got} for NIS={n!r}, k={k!r}, m={m}: the threshold k*sqrt(2m)+m is {thr!r} in doubles, so 'strictly greater' is {want}", path)
                    return part.d
    part.record(Q("unsat", None, 0.0, ""), f"py/remove_innovation/boundary-in-doubles: {n_pts} points on and within 3 ulps of the boundary, m = 1..6 (concrete sweep)")
    return part.d


def py_tasks(tier, seed):
    ms = [1, 2, 3] if tier == "quick" else [1, 2, 3, 4, 8]
    t = [(task_decision, (m, tier, seed)) for m in ms] + [(task_py_boundary, (tier, seed))]
    progs = [CP.P1(), CP.P3(), CP.P8()] if tier == "quick" else [CP.P1(), CP.P2(), CP.P3(), CP.P7(), CP.P8(), CP.P10()]
    for p in progs:
        for key in p.sensors:
            t.append((task_sensor, (p, key, "sym", tier, seed)))
            t.append((task_sensor, (p, key, "none", tier, seed)))
    t.append((task_sequence, (CP.P3(), ("one", "two"), tier, seed)))
    t.append((task_sequence, (CP.P3(), ("two", "one"), tier, seed)))
    if tier != "quick":
        t.append((task_sequence, (CP.P10(), ("ta", "sb", "ta"), tier, seed)))
        t.append((task_sequence, (CP.P10(), ("sb", "ta", "sb"), tier, seed)))
    return t


def _dispatch(fn, args):
    return fn(*args)


def run(tier, seed):
    rep = Report(PID, tier, seed, "translation_validation")
    tasks = py_tasks(tier, seed)
    try:
        from . import c06_cpp

        tasks += c06_cpp.tasks(tier, seed)
        rep.extra["cpp_part"] = "included"
    except ImportError:
        rep.extra["cpp_part"] = "not built yet"
    from . import cfgrb

    tasks += [(cfgrb.task, (PID, *c, tier, seed)) for c in cfgrb.combos(tier)]
    for d in pmap(_dispatch, tasks):
        rep.merge(d)
    rep.bounds = {"m": "1,2,3 (quick) / 1,2,3,4,8 (thorough)", "k": "symbolic k > 0, and the disabled setting", "inputs": "all real innovations and S^-1 entries (no definiteness needed for the decision equivalence)", "outside": "values within a few ulps of the boundary: the claim is over reals with sqrt(2m) as the code's double; exact-boundary witnesses replay bit-exactly only where sqrt(2m) is exact (m=2,8)"}
    rep.assumptions = ["reals for doubles except the constant sqrt(2m), taken as the exact rational of the double the code computes", "validity gates assumed to pass"]
    return finish(
        rep,
        explanation="Decision equivalence as a validity query: the SymBool returned by the real remove_innovation (and the reject-leaf path condition of the real sensor_model, and of the C++ helper / generated filter) is equivalent to z'S^-1 z > k*sqrt(2m)+m for all k>0, z, S^-1; on the reject path the returned objects are the inputs and the innovation is still recorded; with filtering disabled there is no reject path.",
        rule="one obligation per (implementation, m or sensor, clause)",
        trusted_base=["z3 5.1", "engine/symreal", "engine/vsym for the C++ side"],
    )


def replay(path):
    with open(path) as f:
        r = json.load(f)
    if r.get("info", {}).get("kind") == "cfgrb":
        from . import cfgrb

        return cfgrb.replay(PID, r["info"])
    info = r["info"]
    if info["kind"] == "py-boundary":
        i = r["inputs"]
        with quiet():
            ekf = pyh.build_ekf_float(CP.P1(), {}, k=i["k"])
        inn = np.zeros((i["m"], 1))
        inn[0, 0] = 1.0
        Sinv = np.eye(i["m"])
        Sinv[0, 0] = i["nis"]
        got = bool(ekf.remove_innovation(inn, Sinv))
        want = i["nis"] > i["k"] * math.sqrt(2 * i["m"]) + i["m"]
        print(got, want)
        print("REPRODUCED" if got != want else "not reproduced")
        return 1 if got != want else 0
    if info["kind"] == "decision":
        i = r["inputs"]
        try:
            got = float_decision_impl(i["k"], i["z"], i["S_inv"])
        except Exception as ex:
            print(f"REPRODUCED: raises {type(ex).__name__}: {ex}")
            return 1
        want = float_decision_spec(i["k"], i["z"], i["S_inv"])
        print("impl", got, "spec", want)
        if got != want:
            print("REPRODUCED")
            return 1
        print("not reproduced")
        return 0
    if info["kind"] == "sequence":
        ps = {p.id: p for p in CP.catalogue()}
        p = ps[info["program"]]
        got = float_sequence(p, info["order"], r["inputs"], info["k"])
        print(got)
        bad = [g for g in got if g["discarded"] != (g["nis"] > g["threshold"])]
        print("REPRODUCED" if bad else "not reproduced")
        return 1 if bad else 0
    if info["kind"] == "sensor":
        ps = {p.id: p for p in CP.catalogue()}
        p = ps[info["program"]]
        try:
            got = pyh.gate_guard(lambda: float_sensor(p, info["sensor"], r["inputs"], info["k"]))
        except pyh.GateRejected as ex:
            print("gate rejected", ex)
            return 0
        except Exception as ex:
            print(f"REPRODUCED: raises {type(ex).__name__}: {ex}")
            return 1
        print(got)
        decided_reject = got["state_equal"] and got["cov_equal"]
        if decided_reject != got["want_reject"]:
            print("REPRODUCED: decision mismatch")
            return 1
        print("not reproduced")
        return 0
    from . import c06_cpp

    return c06_cpp.replay(r)
