"""C03 - Python filter Jacobians are the true partial derivatives, laid out by name (E1)."""
from __future__ import annotations

import json

import numpy as np
import z3

from corpus import programs as CP
from engine.symreal import expr as X
from engine.symreal.core import SymReal, explore, lift
from engine.symreal.shim import installed
from engine.symreal.zutil import zeval

from . import pyh
from .common import Part, Q, Report, approx_equal, finish, pmap, quiet, tier_timeout_ms, write_replay
from .oblig import prove_equal, reach

PID = "C03"


def float_jacobians(p, cse, e):
    with quiet():
        pn, sn = pyh.noise_vals_from_env(p, e)
        # Jacobians do not depend on the noise values: a candidate may carry any number there, the filter needs a valid one
        pn = {c: (v if v > 0 else p.process_noise[c]) for c, v in pn.items()}
        sn = {k_: {r: (v if v > 0 else p.sensor_noise[k_][r]) for r, v in rs.items()} for k_, rs in sn.items()}
        calmap = pyh.float_calibration_map(p, e)
        ekf = pyh.build_ekf_float(p, e, cse=cse, pn=pn, sn=sn, calmap=calmap)
        for k_ in list(calmap):
            calmap[k_] = calmap[k_] * 3.0 + 1.0  # the caller reuses its dictionary afterwards
        # a second, different filter with the same sensor keys is built and used after the one under test
        decoy = pyh.build_ekf_float(pyh.decoy_program(p), e, cse=cse, pn=pn, sn=sn, calmap=pyh.float_calibration_map(p, e))
        dst = decoy.State(**{s: float(e[s]) * 0.5 + 0.125 for s in p.state})
        for key in p.sensors:
            decoy.sensor_jacobian(key, dst)
        st = ekf.State(**{s: float(e[s]) for s in p.state})
        ct = ekf.Control(**{c: float(e[c]) for c in p.control})
        out = {"G": ekf.process_jacobian(float(e[p.dt]), st, ct), "V": ekf.control_jacobian(float(e[p.dt]), st, ct)}
        for key in p.sensors:
            out["H:" + key] = ekf.sensor_jacobian(key, st)
    return out


def spec_float_jac(p, which, e):
    ss, sc = p.s_state(), p.s_control()
    if which == "G":
        return [[X.evalf(X.diff(p.update[r], c), e) for c in ss] for r in ss]
    if which == "V":
        return [[X.evalf(X.diff(p.update[r], c), e) for c in sc] for r in ss]
    key = which[2:]
    return [[X.evalf(X.diff(p.sensors[key][r], c), e) for c in ss] for r in p.s_readings(key)]


def task(p, cse, tier, seed):
    part = Part()
    part.program(p.id)
    part.fn("python.compile_ekf", "python.ExtendedKalmanFilter._construct_process", "python.ExtendedKalmanFilter._construct_sensors", "python.ExtendedKalmanFilter.process_jacobian", "python.ExtendedKalmanFilter.control_jacobian", "python.ExtendedKalmanFilter.sensor_jacobian", "python.BasicBlock.execute")
    env = pyh.input_env(p)
    pn, sn = pyh.noise_env(p)
    tmo = tier_timeout_ms(tier)
    ss, sc = p.s_state(), p.s_control()
    specG, aG = pyh.spec_jacobian(p, p.update, ss, ss, env)
    specV, aV = pyh.spec_jacobian(p, p.update, ss, sc, env)
    _, aU = pyh.spec_update(p, env)
    specH, aH = {}, []
    for key in p.sensors:
        specH[key], a = pyh.spec_jacobian(p, p.sensors[key], p.s_readings(key), ss, env)
        aH += a
        aH += pyh.spec_sensor(p, key, env)[1]
    assumes = aG + aV + aU + aH + pyh.noise_positive(pn, sn)
    key_base = f"{p.id}/cse={int(cse)}"

    # concrete behaviour of the real code + own differentiator sanity (central differences)
    allnames = list(env) + [f"pn_{c}" for c in p.control] + [f"sn_{k}_{r}" for k in p.sensors for r in p.sensors[k]]
    pts = pyh.seeded_points(list(env), seed + 5, n=2)
    conc = []
    for pt in pts:
        try:
            got = float_jacobians(p, cse, pt)
        except Exception as e:
            path = write_replay(PID, {"key": key_base + "/concrete-exception", "info": {"program": p.id, "cse": cse}, "inputs": pt, "exception": f"{type(e).__name__}: {e}"})
            part.violation(key_base + "/concrete-exception", f"Jacobian evaluation raises {type(e).__name__}: {e} on a valid input", path)
            return part.d
        conc.append((pt, got))
        # validate the harness differentiator by central differences
        h = 1e-6
        for r in ss:
            for c in ss + sc:
                ep, em = dict(pt), dict(pt)
                ep[c] += h
                em[c] -= h
                fd = (X.evalf(p.update[r], ep) - X.evalf(p.update[r], em)) / (2 * h)
                an = X.evalf(X.diff(p.update[r], c), pt)
                if abs(fd - an) > 1e-4 * (1 + abs(an)):
                    part.harness_error(f"differentiator self-check failed d{r}/d{c} at {pt}: {fd} vs {an}")

    env2 = pyh.second_env(env, keep=p.calibration)

    def harness():
        with installed(), quiet():
            calmap = pyh.sym_calibration_map(p, env)
            ekf = pyh.build_ekf_sym(p, env, pn, sn, cse=cse, calmap=calmap)
            # the caller goes on to reuse its calibration dictionary (e.g. for the next filter of a sweep): the filter
            # that was already built must keep the values it was built with
            for k_ in list(calmap):
                calmap[k_] = SymReal(z3.Real("reused_" + k_.name))
            st = ekf.State(**pyh.sym_state_kwargs(p.state, env))
            ct = ekf.Control(**pyh.sym_state_kwargs(p.control, env))
            out = {"G": ekf.process_jacobian(SymReal(env[p.dt]), st, ct), "V": ekf.control_jacobian(SymReal(env[p.dt]), st, ct)}
            for key in p.sensors:
                out["H:" + key] = ekf.sensor_jacobian(key, st)
            snap = {k_: v.copy() for k_, v in out.items()}
            # history dimension: the same filter object evaluated again at independent inputs
            st2 = ekf.State(**pyh.sym_state_kwargs(p.state, env2))
            ct2 = ekf.Control(**pyh.sym_state_kwargs(p.control, env2))
            out2 = {"G": ekf.process_jacobian(SymReal(env2[p.dt]), st2, ct2), "V": ekf.control_jacobian(SymReal(env2[p.dt]), st2, ct2)}
            for key in p.sensors:
                out2["H:" + key] = ekf.sensor_jacobian(key, st2)
            stable = all(lift(a).eq(lift(b)) for k_ in snap for a, b in zip(snap[k_].reshape(-1), out[k_].reshape(-1)))
        return snap, out2, stable

    leaves = explore(harness, assumes=assumes, config={"gate": "assume"})
    part.leaves(leaves)
    if any(l.status != "ok" for l in leaves):
        part.harness_error(f"{key_base}: a symbolic path failed: {[l for l in leaves if l.status != 'ok'][:2]}")
        return part.d
    reach(part, key_base + "/assumptions-sat", assumes)
    base_assumes = list(assumes)
    assumes2_extra = [pyh.subst_env(a, env, env2) for a in base_assumes]
    second = []
    for li, leaf in enumerate(leaves):
        out, out2_, stable = leaf.value
        second.append((leaf, out2_, stable))
    out = leaves[0].value[0]
    if len(leaves) > 1:
        assumes = base_assumes + leaves[0].pc

    specs = {"G": (specG, ss, ss), "V": (specV, ss, sc)}
    for key in p.sensors:
        specs["H:" + key] = (specH[key], p.s_readings(key), ss)
    allv = dict(env)
    for which, (spec, rows, cols) in specs.items():
        M = out[which]
        if M.shape != (len(rows), len(cols)):
            part.harness_error(f"{key_base}: {which} has shape {M.shape}, expected {(len(rows), len(cols))}")
            continue
        for pt, got in conc:
            for i in range(len(rows)):
                for j in range(len(cols)):
                    try:
                        v = zeval(lift(M[i, j]), pt)
                    except KeyError:
                        continue  # the term mentions something that is not an input: the equality obligation below decides
                    if not approx_equal(float(v), float(got[which][i, j])):
                        part.harness_error(f"{key_base}: encoding validation failed {which}[{i},{j}] at {pt}: {v} vs {got[which][i, j]}")
        for i, r in enumerate(rows):
            for j, c in enumerate(cols):

                def replay(e, which=which, i=i, j=j):
                    return {"impl": float(float_jacobians(p, cse, e)[which][i, j]), "spec": spec_float_jac(p, which, e)[i][j]}

                prove_equal(part, PID, f"{key_base}/{which}[d {r}/d {c}]", lift(M[i, j]), spec[i][j], assumes, tmo, replay=replay, key=f"{key_base}/{which}[{r},{c}]", info={"program": p.id, "cse": cse, "which": which, "row": r, "col": c}, all_vars=allv)
    # second evaluation on the same object (every path: a memoising implementation forks on "same argument as before?")
    from .common import Q as _Q
    from .common import solve as _solve

    def float_second(e):
        e1 = {nm: e.get(nm, 0.25) for nm in env}
        e2 = {nm: (e1[nm] if nm in p.calibration else e.get(env2[nm].decl().name(), 0.5)) for nm in env}
        with quiet():
            pnv, snv = pyh.noise_vals_from_env(p, e1)
            ekf = pyh.build_ekf_float(p, e1, cse=cse, pn=pnv, sn=snv)
            res = None
            for ee in (e1, e2):
                st_ = ekf.State(**{s_: float(ee[s_]) for s_ in p.state})
                ct_ = ekf.Control(**{c_: float(ee[c_]) for c_ in p.control})
                res = {"G": ekf.process_jacobian(float(ee[p.dt]), st_, ct_), "V": ekf.control_jacobian(float(ee[p.dt]), st_, ct_)}
                for key in p.sensors:
                    res["H:" + key] = ekf.sensor_jacobian(key, st_)
        return res, e2

    allv2 = dict(allv)
    allv2.update({v.decl().name(): v for v in env2.values()})
    for leaf, out2_, stable in second:
        a2 = base_assumes + assumes2_extra + leaf.pc
        if len(second) > 1 and _solve(a2, 5000).status == "unsat":
            continue
        tag = key_base + (f"/path{second.index((leaf, out2_, stable))}" if len(second) > 1 else "")
        part.record(_Q("unsat" if stable else "sat", None, 0.0, ""), f"{tag}: Jacobians handed out earlier are unchanged by a later evaluation")
        if not stable:
            part.d["inconclusive"].append(f"{tag}: earlier Jacobian arrays changed after a later call (aliasing)")
        for which, (spec, rows, cols) in specs.items():
            M2 = out2_[which]
            for i, r in enumerate(rows):
                for j, c in enumerate(cols):

                    def replay(e, which=which, i=i, j=j):
                        got, e2 = float_second(e)
                        return {"impl": float(got[which][i, j]), "spec": spec_float_jac(p, which, e2)[i][j]}

                    prove_equal(part, PID, f"{tag}/second evaluation {which}[d {r}/d {c}] at new inputs", lift(M2[i, j]), pyh.subst_env(spec[i][j], env, env2), a2, tmo, replay=replay, key=f"{key_base}/second/{which}[{r},{c}]", info={"program": p.id, "cse": cse, "which": which, "row": r, "col": c, "second": True}, all_vars=allv2)
    part.sample({"program": p.id, "cse": cse, "G[0][0]": str(z3.simplify(lift(out["G"][0, 0])))[:160], "spec": str(specG[0][0])[:160]})
    return part.d


def spec_float_jac_mag(p, which, e):
    ss, sc = p.s_state(), p.s_control()
    if which == "G":
        return [[X.evalmag(X.diff(p.update[r], c), e) for c in ss] for r in ss]
    if which == "V":
        return [[X.evalmag(X.diff(p.update[r], c), e) for c in sc] for r in ss]
    key = which[2:]
    return [[X.evalmag(X.diff(p.sensors[key][r], c), e) for c in ss] for r in p.s_readings(key)]


def task_regimes(p, cse, tier, seed):
    """Concrete replays in value regimes (tiny states / controls and a tiny step, huge states): see pyh.regime_envs."""
    import random

    part = Part()
    part.program(p.id)
    part.fn("python.ExtendedKalmanFilter.process_jacobian", "python.ExtendedKalmanFilter.control_jacobian", "python.ExtendedKalmanFilter.sensor_jacobian")
    rng = random.Random(seed + 913)
    whiches = ["G"] + (["V"] if p.control else []) + ["H:" + k for k in p.s_sensors()]
    for rnd in range(1 if tier == "quick" else 3):
        for label, e in pyh.regime_envs(p, rng):
            if label == "tiny-cov":
                continue  # Jacobians do not depend on covariance or noise
            kb = f"{p.id}/cse={int(cse)}/regime={label}"
            info = {"program": p.id, "cse": cse, "kind": "regime", "regime": label}
            try:
                want = {w: np.array(spec_float_jac(p, w, e), dtype=float) for w in whiches}
                mags = {w: np.array(spec_float_jac_mag(p, w, e), dtype=float) for w in whiches}
            except (ZeroDivisionError, ValueError, OverflowError):
                continue
            if not all(np.all(np.isfinite(want[w])) and np.all(np.isfinite(mags[w])) for w in whiches):
                continue
            try:
                got = float_jacobians(p, cse, e)
            except Exception as ex:
                path = write_replay(PID, {"key": kb, "info": info, "inputs": e, "exception": f"{type(ex).__name__}: {ex}"})
                part.violation(kb, f"Jacobian evaluation raises {type(ex).__name__}: {ex} on a valid input in the {label} regime ({e})", path)
                continue
            bad = [w for w in whiches if not pyh.mag_close(np.array(got[w], dtype=float).reshape(want[w].shape), want[w], mags[w], rel=1e-9)]
            part.record(Q("sat" if bad else "unsat", None, 0.0, ""), f"{kb}: Jacobians == partial derivatives relative to operand magnitude (concrete replay)")
            if bad:
                w = bad[0]
                path = write_replay(PID, {"key": kb, "info": info, "inputs": e})
                part.violation(kb, f"{w} differs from the partial derivatives in the {label} regime at {e}: got {np.array(got[w], dtype=float).tolist()} expected {want[w].tolist()}", path)
    return part.d


def programs_for(tier, seed):
    if tier == "quick":
        return [CP.P1(), CP.P3(), CP.P8(), CP.P10(), CP.P12(), CP.P14(), CP.P17(), CP.P19(), CP.P20(), CP.P21(), CP.P22(), CP.P24(), CP.P7()]
    ps = CP.all_fixed() + [CP.P21(), CP.P22(), CP.P24()] + CP.presence_variants(CP.P3())[1:] + CP.presence_variants(CP.P10())[1:]
    ps += [CP.random_program(seed, i) for i in range(10)]
    return ps


def _dispatch(fn, args):
    return fn(*args)


def run(tier, seed):
    rep = Report(PID, tier, seed, "translation_validation")
    ps = programs_for(tier, seed)
    cses = (True, False)
    from .common import pmap_staged

    from .common import with_extra_validation

    extra = [(with_extra_validation, (task, CP.P3(), True, tier, seed)), (with_extra_validation, (task, CP.P12(), False, tier, seed))]
    for d in pmap_staged(_dispatch, [(task_regimes, (p, True, tier, seed)) for p in ps], [(task, (p, cse, tier, seed)) for p in ps for cse in cses] + extra):
        rep.merge(d)
    rep.bounds = {"programs": [p.id for p in ps], "cse": list(cses), "inputs": "all reals (dt, state, control, calibration) where the expressions are defined", "outside": "floating-point rounding; programs outside the corpus"}
    rep.assumptions = ["reals for doubles", "UF abstraction of sin/cos/exp with derivative rules applied by the harness differentiator (sin'->cos, cos'->-sin, exp'->exp)", "covariance validity gates of the constructor treated as assumptions"]
    return finish(
        rep,
        explanation="Every entry of process_jacobian / control_jacobian / sensor_jacobian returned by the real filter on symbolic inputs is proved equal to the partial derivative computed by the harness's own differentiator, at the (row, column) the harness derives from sorted names.",
        rule="one obligation per (program, CSE, matrix, row name, column name)",
        trusted_base=["z3 5.1", "engine/symreal", "harness differentiator (validated by central differences on every run)"],
    )


def replay(path):
    with open(path) as f:
        r = json.load(f)
    info = r["info"]
    ps = {p.id: p for p in programs_for("thorough", int(r.get("seed", 0)))}
    p = ps[info["program"]]
    e = r["inputs"]
    if info.get("second"):
        print("second-evaluation obligation: re-run bin/check C03 (needs the two-call sequence); inputs:", e)
        return 1
    try:
        got = float_jacobians(p, info["cse"], e)
    except Exception as ex:
        print(f"REPRODUCED: raises {type(ex).__name__}: {ex}")
        return 1
    if info.get("kind") == "regime":
        bad = []
        for which in got:
            want = np.array(spec_float_jac(p, which, e), dtype=float)
            mg = np.array(spec_float_jac_mag(p, which, e), dtype=float)
            if not pyh.mag_close(np.array(got[which], dtype=float).reshape(want.shape), want, mg, rel=1e-9):
                bad.append(which)
        print("REPRODUCED" if bad else "not reproduced", bad)
        return 1 if bad else 0
    bad = 0
    for which in got:
        spec = spec_float_jac(p, which, e)
        for i in range(len(spec)):
            for j in range(len(spec[0])):
                if not approx_equal(float(got[which][i, j]), spec[i][j]):
                    print(f"REPRODUCED: {which}[{i},{j}] = {got[which][i, j]} but d/d = {spec[i][j]}")
                    bad = 1
    if not bad:
        print("not reproduced")
    return bad
