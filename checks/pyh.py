"""Helpers that drive the real formak Python objects for a corpus Program (symbolically or concretely)."""
from __future__ import annotations

import random

import math

import numpy as np
import z3

from engine.symreal import expr as X
from engine.symreal.core import SymReal, explore, run_single, lift
from engine.symreal.shim import installed
from engine.symreal.zutil import zeval

from .common import quiet


def zvar(name):
    return z3.Real(name)


def input_env(p, *, cal_prefix=""):
    """name -> z3 variable for every symbol of the program (inputs are bound *by name*)."""
    env = {p.dt: zvar(p.dt)}
    for n in p.state + p.control:
        env[n] = zvar(n)
    for n in p.calibration:
        env[n] = zvar(cal_prefix + n)
    return env


def spec_update(p, env):
    """Specification terms of the state update, with definedness assumptions."""
    den, dom = [], []
    terms = {s: X.to_z3(p.update[s], env, den, dom) for s in p.state}
    assumes = [d != 0 for d in den] + dom
    return terms, assumes


def spec_sensor(p, key, env):
    den, dom = [], []
    terms = {r: X.to_z3(p.sensors[key][r], env, den, dom) for r in p.sensors[key]}
    return terms, [d != 0 for d in den] + dom


def spec_jacobian(p, exprs_by_row, rows, cols, env):
    """Own differentiator: J[i][j] = d exprs[rows[i]] / d cols[j] as z3 terms (+ definedness)."""
    den, dom = [], []
    J = [[X.to_z3(X.diff(exprs_by_row[r], c), env, den, dom) for c in cols] for r in rows]
    return J, [d != 0 for d in den] + dom


def sym_calibration_map(p, env):
    st = p.symtab()
    return {st[c]: SymReal(env[c]) for c in p.calibration}


def float_calibration_map(p, vals):
    st = p.symtab()
    return {st[c]: float(vals[c]) for c in p.calibration}


def py_config(cse=True, innovation_filtering=None, max_dt_sec=0.1):
    from formak import python

    return python.Config(common_subexpression_elimination=cse, innovation_filtering=innovation_filtering, max_dt_sec=max_dt_sec, extra_validation=extra_validation_on())


def extra_validation_on():
    import os

    return os.environ.get("VERIF_EXTRA_VALIDATION") == "1"


def seeded_points(names, seed, n=3, lo=-2.0, hi=2.0):
    rng = random.Random(seed)
    pts = []
    for _ in range(n):
        pts.append({nm: round(rng.uniform(lo, hi), 3) for nm in names})
    return pts


def evalf_spec(exprs, env):
    return {k: X.evalf(e, env) for k, e in exprs.items()}


def sym_state_kwargs(names, env):
    return {n: SymReal(env[n]) for n in names}


def sym_cov(names, prefix="P"):
    """Symmetric symbolic covariance data (shared symbol for [i][j] and [j][i]); sorted-name layout."""
    ns = sorted(names)
    n = len(ns)
    M = np.empty((n, n), dtype=object)
    vars_ = {}
    for i in range(n):
        for j in range(i, n):
            v = z3.Real(f"{prefix}_{ns[i]}_{ns[j]}")
            vars_[(ns[i], ns[j])] = v
            M[i, j] = SymReal(v)
            M[j, i] = SymReal(v)
    return M, vars_


def float_cov(names, env, prefix="P"):
    ns = sorted(names)
    n = len(ns)
    M = np.zeros((n, n))
    for i in range(n):
        for j in range(i, n):
            M[i, j] = M[j, i] = env[f"{prefix}_{ns[i]}_{ns[j]}"]
    return M


def mat_z3(M):
    return [[lift(M[i, j]) for j in range(M.shape[1])] for i in range(M.shape[0])]


def zmatmul(A, B):
    n, k, m = len(A), len(B), len(B[0]) if B else 0
    out = []
    for i in range(n):
        row = []
        for j in range(m):
            s = None
            for t in range(k):
                term = A[i][t] * B[t][j]
                s = term if s is None else s + term
            row.append(s if s is not None else z3.RealVal(0))
        out.append(row)
    return out


def ztranspose(A):
    if not A:
        return []
    return [[A[i][j] for i in range(len(A))] for j in range(len(A[0]))]


def zadd(A, B):
    return [[a + b for a, b in zip(ra, rb)] for ra, rb in zip(A, B)]


def zsub(A, B):
    return [[a - b for a, b in zip(ra, rb)] for ra, rb in zip(A, B)]


# ------------------------------------------------------------------------------------------- EKF builders


def noise_env(p):
    """z3 variables for per-control process noise and per-reading sensor noise (bound by name)."""
    pn = {c: z3.Real(f"pn_{c}") for c in p.control}
    sn = {k: {r: z3.Real(f"sn_{k}_{r}") for r in p.sensors[k]} for k in p.sensors}
    return pn, sn


def noise_positive(pn, sn):
    out = [v > 0 for v in pn.values()]
    for k in sn:
        out += [v > 0 for v in sn[k].values()]
    return out


def build_ekf_sym(p, env, pn, sn, *, cse=True, k=None, max_dt=0.1, container="list", reverse_sensors=False, cal_container="set", calmap=None):
    """Real formak.python.compile_ekf with symbolic calibration and symbolic noise.  Call inside installed()."""
    from formak import python

    st = p.symtab()
    def w(v):
        return SymReal(v) if z3.is_expr(v) else float(v)

    process_noise = {st[c]: w(pn[c]) for c in p.control}
    sens = p.sympy_sensors(reverse=reverse_sensors)
    # the noise maps are bound by key: they are deliberately declared in the opposite order to the sensor / reading maps
    sensor_noises = {key: {r: w(sn[key][r]) for r in reversed(list(sens[key]))} for key in reversed(list(sens))}
    cfg = python.Config(common_subexpression_elimination=cse, innovation_filtering=k, max_dt_sec=max_dt, extra_validation=extra_validation_on())
    return python.compile_ekf(p.ui_model(container, cal_container=cal_container), process_noise, sens, sensor_noises, calmap if calmap is not None else sym_calibration_map(p, env), config=cfg)


def build_ekf_float(p, vals, *, cse=True, k=None, max_dt=0.1, pn=None, sn=None, calmap=None):
    """The real code in floats. vals: name -> float for calibration; pn/sn default to the program's noise."""
    from formak import python

    st = p.symtab()
    pn = pn if pn is not None else p.process_noise
    sn = sn if sn is not None else p.sensor_noise
    process_noise = {st[c]: float(pn[c]) for c in p.control}
    sens = p.sympy_sensors()
    sensor_noises = {key: {r: float(sn[key][r]) for r in reversed(list(sens[key]))} for key in reversed(list(sens))}
    cfg = python.Config(common_subexpression_elimination=cse, innovation_filtering=k, max_dt_sec=max_dt, extra_validation=extra_validation_on())
    return python.compile_ekf(p.ui_model(), process_noise, sens, sensor_noises, calmap if calmap is not None else float_calibration_map(p, vals), config=cfg)


def decoy_program(p):
    """Another, different filter definition that happens to use the SAME sensor keys and reading names (a second
    filter object alive in the same process must not influence the first): every sensor expression e becomes 2e + 1,
    every update expression gets an extra dt."""
    import dataclasses

    return dataclasses.replace(
        p,
        id=p.id + "-decoy",
        update={s: e + X.V(p.dt) for s, e in p.update.items()},
        sensors={k_: {r: X.C(2) * e + X.C(1) for r, e in rs.items()} for k_, rs in p.sensors.items()},
    )


def noise_vals_from_env(p, envf):
    pn = {c: envf.get(f"pn_{c}", p.process_noise[c]) for c in p.control}
    sn = {k: {r: envf.get(f"sn_{k}_{r}", p.sensor_noise[k][r]) for r in p.sensors[k]} for k in p.sensors}
    return pn, sn


# ------------------------------------------------------------------------------------------- covariance helpers


def diag_dominant(names, prefix="P", margin=0.25):
    """Linear constraints making the symmetric matrix of sym_cov() strictly diagonally dominant (hence PD)."""
    ns = sorted(names)
    cs = []

    def v(a, b):
        a, b = sorted([a, b], key=ns.index)
        return z3.Real(f"{prefix}_{a}_{b}")

    for a in ns:
        off = [v(a, b) for b in ns if b != a]
        tot = z3.RealVal(0)
        for o in off:
            tot = tot + z3.If(o >= 0, o, -o)
        cs.append(v(a, a) >= tot + margin)
    return cs


def seeded_cov_env(names, rng, prefix="P"):
    """Random PD matrix A A^T + I/2 on a coarse grid, as env entries."""
    ns = sorted(names)
    n = len(ns)
    A = [[rng.randint(-4, 4) / 4.0 for _ in range(n)] for _ in range(n)]
    env = {}
    for i in range(n):
        for j in range(i, n):
            env[f"{prefix}_{ns[i]}_{ns[j]}"] = sum(A[i][k] * A[j][k] for k in range(n)) + (0.5 if i == j else 0.0)
    return env


class GateRejected(Exception):
    pass


def gate_guard(fn):
    """Run fn(); an AssertionError raised by assert_valid_covariance ('Negative ...') means the candidate
    input was rejected by a validity gate - not this property's subject (C09) - and is signalled separately."""
    try:
        return fn()
    except AssertionError as e:
        import traceback

        tb = traceback.extract_tb(e.__traceback__)
        if str(e).startswith("Negative") or (tb and tb[-1].name == "assert_valid_covariance"):
            raise GateRejected((str(e) or "assert_valid_covariance")[:200]) from e
        raise


class _SV:
    def __init__(self, state, covariance):
        self.state, self.covariance = state, covariance


def pyh_sv(state, covariance):
    return _SV(state, covariance)


# ------------------------------------------------------------------------------------------- history dimension helpers


def second_env(env, suffix="__2", keep=()):
    """A second, independent set of input variables (same names + suffix) for a later call on the same object.
    Names in `keep` (e.g. calibration, which is fixed at construction) are shared."""
    return {n: (v if n in keep else z3.Real(v.decl().name() + suffix)) for n, v in env.items()}


def subst_env(term, env, env2):
    pairs = [(env[n], env2[n]) for n in env if not env[n].eq(env2[n])]
    return z3.substitute(term, *pairs) if pairs else term


# ------------------------------------------------------------------------------------------- value regimes (concrete)


def regime_envs(p, rng, readings_for=None, noise_in_program=False):
    """Valid inputs in value regimes where a hidden absolute tolerance (1e-8, 1e-12, machine epsilon) in the code under
    test would matter although every quantity is perfectly well conditioned *relative to its own scale*:
      tiny-cov    covariance and all noise variances scaled by 1e-14 (sigma ~ 1e-7 in the state's units)
      tiny-state  states and controls ~ 1e-9, dt = 2^-9
      huge-state  states ~ 1e5 .. 1e6
    Returns [(label, env)] with env entries for dt / state / control / calibration, P_*, pn_*, sn_* (and z_<key>_<r>
    close to the predicted reading when readings_for is a sensor key).  These points are *replayed* on the real code;
    they are outside what the exact-real solver queries can distinguish from their O(1) images."""
    out = []
    names = list(input_env(p))
    for label in ("tiny-cov", "tiny-state", "huge-state"):
        e = {nm: rng.randint(-16, 16) / 8.0 for nm in names}
        e[p.dt] = rng.choice([0.125, 0.0625, 0.375])
        cov = seeded_cov_env(p.state, rng)
        cs, ns = 1.0, 1.0
        if label == "tiny-cov":
            cs = ns = 2.0 ** -46  # ~1.4e-14
            if noise_in_program:  # the program's own noise values are already the scaled ones
                ns = 1.0
        elif label == "tiny-state":
            for nm in list(p.state) + list(p.control):
                e[nm] = rng.choice([-1, 1]) * rng.randint(3, 16) / 8.0 * 2.0 ** -30  # ~1e-9
            e[p.dt] = 2.0 ** -9
        else:
            for nm in p.state:
                e[nm] = rng.choice([-1, 1]) * rng.randint(8, 80) / 8.0 * 2.0 ** 17  # 1.3e5 .. 1.3e6
        for k_, v in cov.items():
            e[k_] = v * cs
        for c in p.control:
            e[f"pn_{c}"] = float(p.process_noise[c]) * ns
        for key in p.sensors:
            for r in p.sensors[key]:
                e[f"sn_{key}_{r}"] = float(p.sensor_noise[key][r]) * ns
        if readings_for is not None:
            for r in p.sensors[readings_for]:
                h = X.evalf(p.sensors[readings_for][r], e)
                e[f"z_{readings_for}_{r}"] = h + rng.choice([-1, 1]) * (abs(h) * 2.0 ** -20 + math.sqrt(cs) * 0.25)
        out.append((label, e))
    return out


def mag_close(got, want, mag, rel=1e-9):
    """|got - want| within rel * (magnitude bound of the specification's operands)."""
    got, want, mag = np.asarray(got, dtype=float), np.asarray(want, dtype=float), np.asarray(mag, dtype=float)
    if got.shape != want.shape:
        return False
    if not np.all(np.isfinite(want)):
        return True  # specification undefined at this point: outside the claim
    return bool(np.all(np.isfinite(got)) and np.all(np.abs(got - want) <= rel * mag + 1e-300))
