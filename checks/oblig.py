"""Obligations: 'impl term == spec term for all inputs' decided by z3, with robust witness + replay."""
from __future__ import annotations

import math
import random
import traceback

import z3

from engine.symreal.core import uf_axioms, qval
from engine.symreal.zutil import zeval, zmag

from engine.symreal.core import HarnessError
from .common import REPO, Part, Q, approx_equal, dyadic_box, free_vars, solve, write_replay


def _absdiff_gt(a, b, margin_rel=1e-3):
    d = a - b
    ad = z3.If(d >= 0, d, -d)
    ab = z3.If(b >= 0, b, -b)
    return ad > qval(margin_rel) * (1 + ab)


def env_from_model(model, vars_):
    env = {}
    for n in vars_:
        v = model.get(n, 0)
        env[n] = float(v) if not isinstance(v, bool) else v
    return env


def try_replay(replay, env):
    """replay(env) -> dict(impl=.., spec=..) both floats (or lists of floats). Returns (differs, info)."""
    try:
        r = replay(env)
    except Exception as e:  # the real code raised on this input
        if type(e).__name__ == "GateRejected":
            return False, {"note": "candidate rejected by a validity gate (gate behaviour is C09's subject)", "gate": str(e)}
        tb = traceback.extract_tb(e.__traceback__)
        inner = tb[-1].filename if tb else ""
        if tb and tb[-1].name == "assert_valid_covariance":
            # a candidate the validity gate refuses (e.g. a non-positive noise value the obligation did not constrain)
            return False, {"note": "candidate rejected by a validity gate (gate behaviour is C09's subject)", "gate": str(e)[:200]}
        if not any(REPO in fr.filename for fr in tb):
            raise HarnessError(f"replay failed inside the harness: {type(e).__name__}: {e} at {inner}") from e
        return True, {"exception": f"{type(e).__name__}: {e}", "trace": traceback.format_exc()[-1200:]}
    if r is None:
        return False, {"note": "candidate rejected by a validity gate (covariance gate behaviour is C09's subject)"}
    impl, spec = r["impl"], r["spec"]
    if isinstance(impl, (list, tuple)):
        differs = any(not approx_equal(float(a), float(b)) for a, b in zip(impl, spec))
    else:
        differs = not approx_equal(float(impl), float(spec))
    bad = False
    for v in impl if isinstance(impl, (list, tuple)) else [impl]:
        if isinstance(v, float) and not math.isfinite(v):
            bad = True
    for v in spec if isinstance(spec, (list, tuple)) else [spec]:
        if isinstance(v, float) and not math.isfinite(v):
            return False, r  # specification undefined here: outside the claim
    r = dict(r)
    if bad:
        r["tag"] = "domain-narrowing"
    return differs or bad, r


def prove_equal(
    part: Part,
    pid,
    name,
    impl,
    spec,
    assumes,
    timeout_ms,
    *,
    replay=None,
    key=None,
    info=None,
    box=(-3, 3),
    rng=None,
    extra_axioms=(),
    all_vars=None,
    witness_constraints=(),
    seeded_envs=None,
    big_box=True,
):
    """Returns 'proved' | 'violation' | 'inconclusive'."""
    if impl is spec or impl.eq(spec):
        q = Q("unsat", None, 0.0, name)
        # still a solver-layer decision: structural identity of hash-consed terms
        part.record(q, name)
        return "proved"
    ax = uf_axioms([impl, spec] + list(assumes)) + list(extra_axioms)
    q = solve(list(assumes) + ax + [impl != spec], timeout_ms, name)
    part.record(q, name)
    if q.status == "unsat":
        return "proved"
    vars_ = free_vars([impl, spec] + list(assumes))
    for n, v in (all_vars or {}).items():
        vars_.setdefault(n, v)
    cands = []
    if q.status == "sat":
        q2 = solve(list(assumes) + ax + list(witness_constraints) + [_absdiff_gt(impl, spec)] + dyadic_box(vars_, box[0], box[1]), min(timeout_ms, 10000), name + "/robust")
        if q2.status == "sat":
            cands.append(("robust", env_from_model(q2.model, vars_)))
        elif witness_constraints:
            q3 = solve(list(assumes) + ax + list(witness_constraints) + [impl != spec], min(timeout_ms, 10000), name + "/witness")
            if q3.status == "sat":
                cands.append(("constrained", env_from_model(q3.model, vars_)))
        if not witness_constraints:
            cands.append(("raw", env_from_model(q.model, vars_)))
    # seeded points as additional candidates (each is then *checked*, never assumed)
    rng = rng or random.Random(hash(name) & 0xFFFF)
    if seeded_envs is not None:
        for e in seeded_envs(rng, 6):
            for n in vars_:
                e.setdefault(n, rng.randint(box[0] * 8, box[1] * 8) / 8.0)
            cands.append(("seeded", e))
    else:
        for i in range(6):
            cands.append(("seeded", {n: rng.randint(box[0] * 8, box[1] * 8) / 8.0 for n in vars_}))
    if replay is None:
        if q.status == "sat":
            part.d["inconclusive"].append(name + " (sat, no replay available)")
        return "inconclusive"
    for kind, env in cands:
        # the candidate must satisfy the assumptions in floats (definedness etc.)
        ok_assumptions = True
        # auxiliary symbols (eigenvalue / max / inverse-cut / grid variables) are functions of the inputs: they are
        # not part of a candidate input; assumptions mentioning them are decided by the replay itself
        env_in = {k_: v_ for k_, v_ in env.items() if k_ in all_vars} if all_vars else env
        for a in assumes:
            try:
                if not zeval(a, env_in):
                    ok_assumptions = False
                    break
            except KeyError:
                continue  # mentions cut / gate symbols that are functions of the inputs: decided by the replay itself
            except Exception:
                ok_assumptions = False
                break
        if not ok_assumptions:
            continue
        part.d["witnesses"] += 1
        differs, r = try_replay(replay, env)
        if differs:
            path = write_replay(pid, {"obligation": name, "key": key or name, "candidate_kind": kind, "solver_status": q.status, "inputs": env, "result": r, "info": info or {}})
            part.violation(key or name, f"{name}: real code differs from specification at {_short(env)} -> {_short(r)}", path)
            return "violation"
    if q.status == "sat" and big_box:
        # The difference may be invisible at O(1) inputs (a coefficient of 3e-13 dropped, a constant snapped to the
        # nearest integer): ask for a robust witness in a much larger box.  There cancellation can make two float
        # evaluations of the same real expression differ, so the replay is judged against the magnitude bound of the
        # specification term at that point (rounding error is a small multiple of eps * zmag), not against its value.
        rv = {n: v for n, v in vars_.items() if z3.is_real(v) and not n.startswith(("pn_", "sn_", "P_", "P2_"))}
        boxc = []
        for n, v in vars_.items():
            if z3.is_real(v):
                lim = 2 ** 20 if n in rv else 4
                boxc += [v >= -lim, v <= lim]
        gridc = dyadic_box(rv, -(2 ** 20), 2 ** 20, 1)
        q5 = solve(list(assumes) + ax + list(witness_constraints) + boxc + gridc + [_absdiff_gt(impl, spec, 1e-3)], min(timeout_ms, 10000), name + "/robust-large")
        if q5.status == "sat":
            env = env_from_model(q5.model, vars_)
            env_in = {k_: v_ for k_, v_ in env.items() if k_ in all_vars} if all_vars else env
            ok_a = True
            for a in assumes:
                try:
                    if not zeval(a, env_in):
                        ok_a = False
                        break
                except Exception:
                    continue
            if ok_a:
                part.d["witnesses"] += 1
                try:
                    r = replay(env)
                except Exception:
                    r = None
                if r is not None and not isinstance(r.get("impl"), (list, tuple)):
                    try:
                        mag = zmag(spec, env_in)
                        fi, fs = float(r["impl"]), float(r["spec"])
                        if math.isfinite(mag) and math.isfinite(fs) and (not math.isfinite(fi) or abs(fi - fs) > 1e-7 * (mag + 1e-300)):
                            path = write_replay(pid, {"obligation": name, "key": key or name, "candidate_kind": "robust-large", "solver_status": q.status, "inputs": env, "result": r, "magnitude_bound": mag, "info": info or {}})
                            part.violation(key or name, f"{name}: real code differs from specification at {_short(env)} -> {_short(r)} (magnitude bound of the specification there: {mag:.3g})", path)
                            return "violation"
                    except (KeyError, NotImplementedError, OverflowError, ZeroDivisionError):
                        pass
    if q.status == "sat":
        # exact equality fails only at rounding level (e.g. a rational constant printed as a double)? Then the
        # weaker claim "equal within 1e-9 relative on a box" is still decidable - and is what 'up to rounding' means.
        boxc = []
        for v in vars_.values():
            if z3.is_real(v):
                boxc += [v >= -4, v <= 4]
        q4 = solve(list(assumes) + ax + boxc + [_absdiff_gt(impl, spec, 1e-9)], min(timeout_ms, 20000), name + "/approx")
        if q4.status == "unsat":
            part.record(q4, name + " [exact equality differs at rounding level; proved within 1e-9 relative for |inputs| <= 4]")
            return "proved"
        part.d["inconclusive"].append(name + " (sat in the abstraction, no candidate reproduced)")
    return "inconclusive"


def _has_aux(a):
    # assumptions mentioning cut symbols / grid ints cannot be float-evaluated from input values alone
    return False


def _short(o, n=300):
    s = repr(o)
    return s if len(s) <= n else s[:n] + "..."


def prove_valid(part: Part, name, claim, assumes, timeout_ms, extra_axioms=()):
    """claim must hold under assumes: unsat(assumes & not claim).  Returns Q."""
    ax = uf_axioms([claim] + list(assumes)) + list(extra_axioms)
    q = solve(list(assumes) + ax + [z3.Not(claim)], timeout_ms, name)
    part.record(q, name)
    return q


def reach(part: Part, name, constraints, timeout_ms=5000):
    """Reachability / non-vacuity witness: the constraints must be satisfiable."""
    q = solve(list(constraints), timeout_ms, name)
    if q.status == "unsat":
        part.harness_error(f"vacuous: {name} is unsatisfiable")
    return q
