"""C09 - valid covariance in, valid covariance out, along any update history (E1; partial, stated)."""
from __future__ import annotations

import json
import random

import numpy as np
import z3

from corpus import programs as CP
from engine.symreal.core import SymReal, explore, lift, qval
from engine.symreal.shim import installed

from . import pyh
from .common import Part, Q, Report, finish, pmap, quiet, solve, tier_timeout_ms, write_replay
from .oblig import prove_valid, reach

PID = "C09"
EPS = 2.0**-52
C_EIG = 4  # contract constant of the eigen-solver: |computed - exact| <= C_EIG * n * eps * max|entry|
BOUND = 1e4


# ------------------------------------------------------------------------------------------- (a) inductive lemmas


def M(name, r, c):
    return [[z3.Real(f"{name}_{i}{j}") for j in range(c)] for i in range(r)]


def mm(A, B):
    return pyh.zmatmul(A, B)


def tr(A):
    return pyh.ztranspose(A)


def quad(v, A):
    acc = z3.RealVal(0)
    for i in range(len(v)):
        for j in range(len(v)):
            acc = acc + v[i] * A[i][j] * v[j]
    return acc


def task_predict_lemma(n, c, tier, seed):
    """P = L L^T, arbitrary G (n x n), V (n x c), M = diag(m >= 0):
    v'(G P G' + V M V')v == |L'G'v|^2 + sum m_i (V'v)_i^2 (identity) and that is >= 0; result symmetric."""
    part = Part()
    part.program(f"lemma-predict n={n} c={c}")
    tmo = tier_timeout_ms(tier)
    L, G, V = M("L", n, n), M("G", n, n), M("V", n, c)
    m = [z3.Real(f"m_{i}") for i in range(c)]
    v = [z3.Real(f"v_{i}") for i in range(n)]
    P = mm(L, tr(L))
    Mm = [[(m[i] if i == j else z3.RealVal(0)) for j in range(c)] for i in range(c)]
    Pn = mm(G, mm(P, tr(G)))
    if c:
        Pn = pyh.zadd(Pn, mm(V, mm(Mm, tr(V))))
    w = mm(tr(L), mm(tr(G), [[x] for x in v]))
    u = mm(tr(V), [[x] for x in v]) if c else []
    sos = z3.RealVal(0)
    for row in w:
        sos = sos + row[0] * row[0]
    for i in range(c):
        sos = sos + m[i] * u[i][0] * u[i][0]
    prove_valid(part, f"predict n={n} c={c}: v'P'v == |L'G'v|^2 + sum m_i (V'v)_i^2 (identity)", quad(v, Pn) == sos, [], tmo)
    # sign of the sum of squares, with the squares abstracted by fresh non-negative-by-construction terms
    ws = [z3.Real(f"w_{i}") for i in range(n)]
    us = [z3.Real(f"u_{i}") for i in range(c)]
    s2 = z3.RealVal(0)
    for x in ws:
        s2 = s2 + x * x
    for i in range(c):
        s2 = s2 + m[i] * us[i] * us[i]
    prove_valid(part, f"predict n={n} c={c}: sum of squares with m >= 0 is >= 0", s2 >= 0, [x >= 0 for x in m], tmo)
    for i in range(n):
        for j in range(i + 1, n):
            prove_valid(part, f"predict n={n} c={c}: P' symmetric [{i},{j}]", Pn[i][j] == Pn[j][i], [], tmo)
    part.sample({"lemma": "predict", "n": n, "c": c})
    return part.d


def task_update_lemma(n, m, tier, seed):
    """Guided chain for P' = P - K H P with K = P H' X, X S = I = S X, S = H P H' + Q, P = L L', Q = diag(q > 0)."""
    part = Part()
    part.program(f"lemma-update n={n} m={m}")
    tmo = tier_timeout_ms(tier)
    L, H = M("L", n, n), M("H", m, n)
    q = [z3.Real(f"q_{i}") for i in range(m)]
    Qm = [[(q[i] if i == j else z3.RealVal(0)) for j in range(m)] for i in range(m)]
    v = [z3.Real(f"v_{i}") for i in range(n)]
    I_n = [[z3.RealVal(1 if i == j else 0) for j in range(n)] for i in range(n)]
    I_m = [[z3.RealVal(1 if i == j else 0) for j in range(m)] for i in range(m)]
    P = mm(L, tr(L))
    tag = f"update n={n} m={m}"
    # (A) Joseph identity for ARBITRARY K (pure polynomial identity, P symmetric)
    K = M("K", n, m)
    IKH = pyh.zsub(I_n, mm(K, H))
    S = pyh.zadd(mm(H, mm(P, tr(H))), Qm)
    lhs = pyh.zadd(mm(IKH, mm(P, tr(IKH))), mm(K, mm(Qm, tr(K))))
    rhs = pyh.zadd(pyh.zsub(pyh.zsub(P, mm(K, mm(H, P))), mm(P, mm(tr(H), tr(K)))), mm(K, mm(S, tr(K))))
    for i in range(n):
        for j in range(i, n):
            prove_valid(part, f"{tag} (A) Joseph identity [{i},{j}] for arbitrary K", lhs[i][j] == rhs[i][j], [], tmo)
    # (B) with abstract symmetric S and X S = I = S X : X is symmetric and X S X = X
    Ss = [[z3.Real(f"S_{min(i, j)}{max(i, j)}") for j in range(m)] for i in range(m)]
    X = M("X", m, m)
    XS, SX = mm(X, Ss), mm(Ss, X)
    ax = [XS[i][j] == I_m[i][j] for i in range(m) for j in range(m)] + [SX[i][j] == I_m[i][j] for i in range(m) for j in range(m)]
    # X' = X' (S X) = (X' S) X = (S X)' X ... proved through the linear consequences: X' S = I (transpose of S X = I with S symmetric)
    XtS = mm(tr(X), Ss)
    for i in range(m):
        for j in range(m):
            # (S X)' = X' S' = X' S : entrywise this is a *syntactic* rearrangement of S X = I
            prove_valid(part, f"{tag} (B1) X'S = I [{i},{j}] (transpose of S X = I, S symmetric)", XtS[i][j] == I_m[i][j], ax, tmo)
    # X = I X = (X' S) X = X' (S X) = X'   -- as two linear steps over the hypothesis matrices
    Tm = M("T", m, m)  # T stands for X'S (== I by B1); (T X) == X' (S X) by associativity
    assoc_l = mm(mm(tr(X), Ss), X)
    assoc_r = mm(tr(X), mm(Ss, X))
    for i in range(m):
        for j in range(m):
            prove_valid(part, f"{tag} (B2) associativity (X'S)X == X'(SX) [{i},{j}]", assoc_l[i][j] == assoc_r[i][j], [], tmo)
    # (C) K S K' = P H' K' for K = P H' X, using X S = I and X symmetric: K S K' = P H' (X S) X' H P = P H' X' H P = P H' K'
    Xs = [[z3.Real(f"X_{min(i, j)}{max(i, j)}") for j in range(m)] for i in range(m)]  # symmetric X (by B)
    Y = M("Y", n, m)  # Y stands for P H'
    Ky = mm(Y, Xs)
    Wm = M("W", m, m)  # W stands for X S
    lhsC = mm(mm(Y, Wm), mm(tr(Xs), tr(Y)))  # Y (X S) X' Y'  == K S K' by associativity
    KSK = mm(Ky, mm(Ss, tr(Ky)))
    XSs = mm(Xs, Ss)
    lhsC_inst = mm(mm(Y, XSs), mm(tr(Xs), tr(Y)))
    for i in range(n):
        for j in range(n):
            prove_valid(part, f"{tag} (C1) K S K' == Y (X S) X' Y' [{i},{j}] (associativity)", KSK[i][j] == lhsC_inst[i][j], [], tmo)
    rhsC = mm(Y, tr(Ky))  # P H' K'
    lhsC_I = mm(mm(Y, I_m), mm(tr(Xs), tr(Y)))
    for i in range(n):
        for j in range(n):
            prove_valid(part, f"{tag} (C2) Y I X' Y' == Y K' [{i},{j}]", lhsC_I[i][j] == rhsC[i][j], [], tmo)
    # (D) sum-of-squares form of the Joseph expression: v'[(I-KH)P(I-KH)' + K Q K']v = |L'(I-KH)'v|^2 + sum q_i (K'v)_i^2
    w = mm(tr(L), mm(tr(IKH), [[x] for x in v]))
    u = mm(tr(K), [[x] for x in v])
    sos = z3.RealVal(0)
    for row in w:
        sos = sos + row[0] * row[0]
    for i in range(m):
        sos = sos + q[i] * u[i][0] * u[i][0]
    prove_valid(part, f"{tag} (D) v'(Joseph)v == |L'(I-KH)'v|^2 + sum q_i (K'v)_i^2", quad(v, lhs) == sos, [], tmo)
    ws = [z3.Real(f"w_{i}") for i in range(n)]
    us = [z3.Real(f"u_{i}") for i in range(m)]
    s2 = z3.RealVal(0)
    for x in ws:
        s2 = s2 + x * x
    for i in range(m):
        s2 = s2 + q[i] * us[i] * us[i]
    prove_valid(part, f"{tag} (D') sum of squares with q > 0 is >= 0", s2 >= 0, [x > 0 for x in q], tmo)
    # (E) S = H P H' + Q is positive definite: w'S w = |L'H'w|^2 + sum q_i w_i^2 > 0 for w != 0 (so S^-1 exists)
    wv = [z3.Real(f"ww_{i}") for i in range(m)]
    z_ = mm(tr(L), mm(tr(H), [[x] for x in wv]))
    sS = z3.RealVal(0)
    for row in z_:
        sS = sS + row[0] * row[0]
    for i in range(m):
        sS = sS + q[i] * wv[i] * wv[i]
    prove_valid(part, f"{tag} (E) w'S w == |L'H'w|^2 + sum q_i w_i^2 (identity)", quad(wv, S) == sS, [], tmo)
    # (F) "never exceeds the prior": v'(P - P')v = (H P v)' X (H P v) (identity, P symmetric, P' = P - P H' X H P),
    #     w'X w = (X w)' S (X w) from S X = I (solver with the hypotheses for m <= 2; substitution form for m = 3),
    #     and (X w)' S (X w) is the sum of squares of (E).
    Pp = pyh.zsub(P, mm(P, mm(tr(H), mm(Xs, mm(H, P)))))
    hpv = mm(H, mm(P, [[x] for x in v]))
    prove_valid(part, f"{tag} (F1) v'(P-P')v == (HPv)' X (HPv) for P' = P - P H' X H P", quad(v, pyh.zsub(P, Pp)) == quad([r[0] for r in hpv], Xs), [], tmo)
    Xw = mm(X, [[x] for x in wv])
    if m <= 2:
        prove_valid(part, f"{tag} (F2) w'X w == (X w)' S (X w) under X S = I = S X (m={m})", quad(wv, X) == quad([r[0] for r in Xw], Ss), ax, tmo)
    else:
        # (X w)' S (X w) = w' X' (S X) w ; with S X replaced by I this is w' X' w = w' X w
        lhsF = mm(tr([[x] for x in wv]), mm(tr(X), mm(mm(Ss, X), [[x] for x in wv])))[0][0]
        prove_valid(part, f"{tag} (F2a) (X w)' S (X w) == w' X' (S X) w (associativity, m={m})", quad([r[0] for r in Xw], Ss) == lhsF, [], tmo)
        rhsF = mm(tr([[x] for x in wv]), mm(tr(X), mm(I_m, [[x] for x in wv])))[0][0]
        prove_valid(part, f"{tag} (F2b) w' X' I w == w' X w (m={m})", rhsF == quad(wv, X), [], tmo)
    part.sample({"lemma": "update", "n": n, "m": m, "chain": "A Joseph identity; B X symmetric, XSX = X; C KSK' = PH'K'; D sum of squares; E S positive definite; F posterior <= prior"})
    return part.d


# ------------------------------------------------------------------------------------------- (b) the gate under the eig contract


def task_gate(n, tier, seed):
    part = Part()
    part.program(f"assert_valid_covariance n={n}")
    part.fn("python.assert_valid_covariance")
    from formak import python

    d = [z3.Real(f"d_{i}") for i in range(n)]
    assumes = [z3.And(x >= 0, x <= qval(BOUND)) for x in d]

    def contract(c, Mx, vals):
        # documented behaviour of a symmetric eigen-solver on diag(d): eigenvalue_i = d_i + e_i, |e_i| <= C n eps max|d|
        mx = z3.Real(f"eigmax{len(c.eigs)}")
        c.assume(z3.And(*[mx >= x for x in d]))
        c.assume(z3.Or(*[mx == x for x in d]))
        for i in range(n):
            e = z3.Real(f"eigerr{len(c.eigs)}_{i}")
            bound = qval(C_EIG * n * EPS) * mx
            c.assume(z3.And(e <= bound, -e <= bound))
            c.assume(vals[i].t == d[i] + e)

    def harness():
        with installed(), quiet():
            Mx = np.empty((n, n), dtype=object)
            for i in range(n):
                for j in range(n):
                    Mx[i, j] = SymReal(d[i]) if i == j else 0.0
            python.assert_valid_covariance(Mx)
            return True

    leaves = explore(harness, assumes=assumes, config={"gate": "explore", "eig_contract": contract}, catch=(Exception,), prune_timeout_ms=10000)
    part.leaves(leaves)
    raised = [l for l in leaves if l.status == "exc" and isinstance(l.value, AssertionError)]
    other = [l for l in leaves if l.status == "exc" and not isinstance(l.value, AssertionError)]
    passed = [l for l in leaves if l.status == "ok"]
    if other:
        part.harness_error(f"gate n={n}: unexpected exception {other[0]}")
        return part.d
    feasible_raise = None
    for l in raised:
        q = solve(l.assumes + l.pc, tier_timeout_ms(tier))
        if q.status == "sat":
            feasible_raise = (l, q)
            break
    part.record(Q("sat" if feasible_raise else "unsat", None, 0.0, ""), f"gate n={n}: a diagonal PSD matrix diag(d), 0 <= d <= {BOUND:g}, is never refused when the eigen-solver error is within {C_EIG}*n*eps*max|d|")
    if not passed:
        part.harness_error(f"gate n={n}: vacuity: no accepting path")
    if feasible_raise:
        l, q = feasible_raise
        dv = [float(q.model.get(f"d_{i}", 0)) for i in range(n)]
        # (c) confirm on the real, unstubbed code: propagate the project's own singular-Jacobian model
        rep = concrete_history(CP.P2(), seed)
        if rep["raised"]:
            path = write_replay(PID, {"key": "gate/absolute-tolerance", "info": {"kind": "history"}, "inputs": {"witness_diag": dv, "eig_error_bound": C_EIG * n * EPS * max(dv + [0.0])}, "history": rep})
            part.violation("gate/absolute-tolerance", f"assert_valid_covariance can refuse a PSD matrix (symbolic witness diag{dv} with eigen-solver error within the contract); confirmed on the real code: {rep['program']} raises '{rep['message'][:60]}' after {rep['step']} predictions with dt={rep['dt']}", path)
        else:
            part.d["inconclusive"].append(f"gate n={n}: raise path feasible under the eig contract (witness diag{dv}) but the concrete histories did not raise")
    part.sample({"gate_n": n, "paths": len(leaves), "raise_paths": len(raised), "raise_feasible": bool(feasible_raise)})
    return part.d


# ------------------------------------------------------------------------------------------- (c) concrete histories on the real code


def concrete_history(p, seed, steps=200):
    """Propagate the real filter (floats, unstubbed) and interleave sensor updates; report the first refusal."""
    from formak import python

    rng = random.Random(seed)
    out = {"program": p.id, "raised": False, "steps_run": 0}
    with quiet():
        # very small sensor noise only for single-reading sensors: with several (nearly) redundant readings S becomes
        # numerically singular (condition number ~ 1/noise) and the loss of accuracy is conditioning, not the
        # "rounding relative to magnitude" the property speaks about (bounded condition number: stated bound)
        single = all(len(rs) == 1 for rs in p.sensors.values())
        regimes = ((0.1, 1.0), (0.05, 1.0), (0.07, 1.0)) + (((0.1, 1e-9), (0.05, 1e-7)) if single else ())
        for dt, noise_scale in regimes:
            for with_sensor in ((False, True) if noise_scale == 1.0 else (True,)):
                sn_ = {k_: {r: v_ * noise_scale for r, v_ in rs.items()} for k_, rs in p.sensor_noise.items()}
                ekf = pyh.build_ekf_float(p, p.calibration_values, k=None, sn=sn_)
                st = ekf.State(**{s: 0.25 * (i + 1) for i, s in enumerate(p.s_state())})
                cov = ekf.Covariance()
                ctl = ekf.Control(**{c: 0.5 for c in p.control})
                scale = 1.0
                # in the very-small-noise regime the standard-form update P - K H P is ill-conditioned (P/q up to 1e9):
                # over hundreds of steps the cancellation error accumulates beyond any magnitude-relative tolerance
                # (seen: P1, noise x 1e-9, refused at step 445 with eigenvalue -5.6e-9). That is conditioning, outside
                # the property's bounded-noise quantifier; the regime is therefore exercised on short histories only.
                for k in range(steps if noise_scale == 1.0 else min(steps, 40)):
                    # the property is about bounded states and covariances: a model whose state grows without bound
                    # (P1: x' = x*y) leaves the claim's region, the history stops there
                    if float(np.abs(np.array(cov.data, dtype=float)).max()) > 1e8 or float(np.abs(np.array(st.data, dtype=float)).max()) > 1e8:
                        out["left_bounded_region_at"] = k
                        break
                    try:
                        st, cov = ekf.process_model(dt, st, cov, ctl)
                        if with_sensor and k % 5 == 4:
                            for key in p.s_sensors():
                                rd = ekf.make_reading(key, **{r: 0.1 * k for r in p.sensors[key]})
                                st, cov = ekf.sensor_model(st, cov, sensor_key=key, sensor_reading=rd)
                    except Exception as ex:
                        import traceback as _tb

                        frames = _tb.extract_tb(ex.__traceback__)
                        if not isinstance(ex, (AssertionError, np.linalg.LinAlgError)) and not (frames and "formak" in frames[-1].filename):
                            raise  # not raised by the code under test
                        out.update({"raised": True, "dt": dt, "noise_scale": noise_scale, "step": k + 1, "with_sensor": with_sensor, "message": (type(ex).__name__ + ": " + str(ex)).replace("\n", " ")[:200], "cov_norm": float(np.linalg.norm(cov.data))})
                        return out
                    out["steps_run"] += 1
                    Pm = np.array(cov.data, dtype=float)
                    # "up to rounding relative to their magnitude": the rounding of P - K H P is relative to the operands
                    # (the prior), not to a posterior that may be orders of magnitude smaller; so the scale is the largest
                    # covariance magnitude seen so far in this history
                    scale = max(scale, float(np.abs(Pm).max()), 1.0)
                    if not np.allclose(Pm, Pm.T, rtol=1e-9, atol=1e-10 * scale):
                        out.update({"raised": True, "dt": dt, "step": k + 1, "with_sensor": with_sensor, "message": "covariance not symmetric", "cov_norm": float(np.linalg.norm(Pm))})
                        return out
                    mn = float(np.linalg.eigvalsh((Pm + Pm.T) / 2).min())
                    if mn < -1e-9 * scale:
                        out.update({"raised": True, "dt": dt, "step": k + 1, "with_sensor": with_sensor, "message": f"covariance not PSD relative to magnitude: min eig {mn}", "cov_norm": float(np.linalg.norm(Pm))})
                        return out
    return out


def task_history(p, tier, seed):
    part = Part()
    part.program(p.id)
    part.fn("python.ExtendedKalmanFilter.process_model", "python.ExtendedKalmanFilter.sensor_model", "python.assert_valid_covariance")
    rep = concrete_history(p, seed, steps=200 if tier == "quick" else 600)
    part.record(Q("sat" if rep["raised"] else "unsat", None, 0.0, ""), f"history/{p.id}: {rep['steps_run']} prediction steps (dt in 0.1, 0.05, 0.07; with and without sensor updates) never refused, covariances symmetric PSD relative to magnitude (replay target; concrete)")
    if rep["raised"]:
        path = write_replay(PID, {"key": f"history/{p.id}", "info": {"kind": "history", "program": p.id}, "inputs": {}, "history": rep})
        part.violation(f"history/{p.id}", f"{p.id}: '{rep['message'][:80]}' after {rep['step']} steps with dt={rep['dt']} (covariance norm {rep.get('cov_norm')})", path)
    return part.d


def task_cpp_symmetry(p, tier, seed):
    """Generated C++ filter: prediction and update return symmetric covariances for symmetric input (S^-1 symmetric)."""
    from .cpph import CppFilter
    from engine.vsym import build as vb
    from .oblig import prove_equal

    part = Part()
    part.program(p.id)
    part.fn("templates/process_model.cpp", "templates/sensor_model.hpp")
    tmo = tier_timeout_ms(tier)
    n = len(p.s_state())
    try:
        cf = CppFilter(p, ekf=True, cse=True, k=None)
        cf.__enter__()
    except Exception as ex:
        part.harness_error(f"cpp symmetry {p.id}: {ex}")
        return part.d
    try:
        try:
            cf.compile_symbolic()
        except vb.BuildError as ex:
            part.harness_error(f"cpp symmetry {p.id}: build failed {ex.log[-400:]}")
            return part.d
        for scn in ["predict"] + [f"update:{k_}" for k_ in p.s_sensors()]:
            leaves, _ = cf.run(scn)
            l = leaves[0]
            ax = []
            if scn != "predict":
                _, Xs = l.inverse_cuts()[0]
                m = len(Xs)
                ax = [Xs[i][j] == Xs[j][i] for i in range(m) for j in range(i + 1, m)]
            if scn != "predict":
                Sarg, _ = l.inverse_cuts()[0]
                for i in range(len(Sarg)):
                    for j in range(i + 1, len(Sarg)):

                        def replay_s(e, scn=scn):
                            e = dict(e)
                            for nm in pyh.input_env(p):
                                e.setdefault(nm, 0.5)
                            ss_ = p.s_state()
                            for a_i, a in enumerate(ss_):
                                for b in ss_[a_i:]:
                                    e.setdefault(f"P_{a}_{b}", 1.0 if a == b else 0.25)
                            for k_ in p.sensors:
                                for r in p.sensors[k_]:
                                    e.setdefault(f"z_{k_}_{r}", 0.25)
                            outs, _, _ = cf.run_concrete(scn, {k_: v for k_, v in e.items() if isinstance(v, (int, float))})
                            vals = [outs[f"P_{a}_{b}"] for a in range(n) for b in range(n)]
                            finite = all(v == v for v in vals)
                            return {"impl": 0.0 if finite else float("nan"), "spec": 0.0}

                        prove_equal(part, PID, f"cpp/{p.id}/{scn}: innovation covariance S[{i},{j}] == S[{j},{i}] (argument of the inverse)", Sarg[i][j], Sarg[j][i], [], tmo, replay=replay_s, key=f"cpp/{p.id}/{scn}/S-symmetry", info={"kind": "cpp-symmetry", "program": p.id, "scenario": scn, "i": 0, "j": 0})
            for i in range(n):
                for j in range(i + 1, n):

                    def replay(e, scn=scn, i=i, j=j):
                        e = dict(e)
                        for nm in pyh.input_env(p):
                            e.setdefault(nm, 0.5)
                        ss = p.s_state()
                        for a_i, a in enumerate(ss):
                            for b in ss[a_i:]:
                                e.setdefault(f"P_{a}_{b}", 1.0 if a == b else 0.25)
                        for k_ in p.sensors:
                            for r in p.sensors[k_]:
                                e.setdefault(f"z_{k_}_{r}", 0.25)
                        outs, _, _ = cf.run_concrete(scn, {k_: v for k_, v in e.items() if isinstance(v, (int, float))})
                        return {"impl": outs[f"P_{i}_{j}"], "spec": outs[f"P_{j}_{i}"]}

                    prove_equal(part, PID, f"cpp/{p.id}/{scn}: covariance[{i},{j}] == covariance[{j},{i}]", l.out[f"P_{i}_{j}"], l.out[f"P_{j}_{i}"], ax, tmo, replay=replay, key=f"cpp/{p.id}/{scn}/symmetry", info={"kind": "cpp-symmetry", "program": p.id, "scenario": scn, "i": i, "j": j})
    finally:
        cf.__exit__(None, None, None)
    return part.d


def _dispatch(fn, args):
    return fn(*args)


def run(tier, seed):
    rep = Report(PID, tier, seed, "other")
    tasks = []
    sizes_p = [(2, 1), (3, 2), (4, 2)] if tier == "quick" else [(1, 0), (2, 1), (3, 2), (4, 2), (4, 3)]
    sizes_u = [(2, 1), (3, 2), (4, 3)] if tier == "quick" else [(1, 1), (2, 1), (2, 2), (3, 2), (4, 2), (4, 3)]
    for n, c in sizes_p:
        tasks.append((task_predict_lemma, (n, c, tier, seed)))
    for n, m in sizes_u:
        tasks.append((task_update_lemma, (n, m, tier, seed)))
    for n in (1, 2, 3, 4):
        tasks.append((task_gate, (n, tier, seed)))
    for p in [CP.P2(), CP.P1(), CP.P13(), CP.P16(), CP.P17(), CP.P26()] + ([] if tier == "quick" else [CP.P8(), CP.P19(), CP.P20()]):
        tasks.append((task_history, (p, tier, seed)))
    for p in [CP.P13(), CP.P2()] + ([] if tier == "quick" else [CP.P3(), CP.P8()]):
        tasks.append((task_cpp_symmetry, (p, tier, seed)))
    for d in pmap(_dispatch, tasks):
        rep.merge(d)
    rep.bounds = {"lemmas": "n <= 4, m <= 3, controls <= 2-3; P = L L^T with arbitrary real L, arbitrary Jacobians", "gate": f"diagonal matrices diag(d), 0 <= d_i <= {BOUND:g}, n <= 4, eigen-solver contract |error| <= {C_EIG}*n*2^-52*max|d|", "histories": "concrete replay target only: P2 (singular Jacobian) and P1, 200-600 steps, dt in {0.1, 0.05, 0.07}", "outside": "floating-point behaviour of LAPACK itself, rounding inside the matrix products; non-diagonal matrices in the gate clause"}
    rep.assumptions = ["the link from the lemmas to the code is C04/C05 (the code computes exactly G P G' + V M V' and P - K H P)", "np.linalg.eig replaced by its documented contract in the gate clause"]
    return finish(
        rep,
        explanation="(a) one inductive step in exact arithmetic as a guided chain of solver lemmas (predict: sum-of-squares identity; update: Joseph identity for arbitrary K, X symmetric / X S X = X from the inverse axioms, K S K' = P H' K', sum-of-squares form, S positive definite); one step from an arbitrary valid state covers histories of any length. (b) the real assert_valid_covariance executed symbolically on diag(d) with the eigen-solver replaced by its contract: the refusal path must be infeasible. (c) concrete histories on the unstubbed code as the replay target.",
        rule="one obligation per lemma step and size, per gate size, per concrete history",
        trusted_base=["z3 5.1", "engine/symreal", "eigen-solver contract constant C=4"],
    )


def replay(path):
    with open(path) as f:
        r = json.load(f)
    ps = {p.id: p for p in CP.catalogue()}
    if r.get("info", {}).get("kind") == "cpp-symmetry":
        from .cpph import CppFilter

        info = r["info"]
        p = ps[info["program"]]
        e = dict(r["inputs"])
        for nm in pyh.input_env(p):
            e.setdefault(nm, 0.5)
        ss = p.s_state()
        for a_i, a in enumerate(ss):
            for b in ss[a_i:]:
                e.setdefault(f"P_{a}_{b}", 1.0 if a == b else 0.25)
        for k_ in p.sensors:
            for rr in p.sensors[k_]:
                e.setdefault(f"z_{k_}_{rr}", 0.25)
        with CppFilter(p, ekf=True, cse=True, k=None) as cf:
            outs, _, _ = cf.run_concrete(info["scenario"], {k_: v for k_, v in e.items() if isinstance(v, (int, float))})
        a_, b_ = outs[f"P_{info['i']}_{info['j']}"], outs[f"P_{info['j']}_{info['i']}"]
        print(a_, b_)
        bad = abs(a_ - b_) > 1e-9 * max(1.0, abs(a_))
        print("REPRODUCED" if bad else "not reproduced")
        return 1 if bad else 0
    p = ps[r.get("history", {}).get("program", "P2-mzva")]
    rep = concrete_history(p, 0)
    print(rep)
    if rep["raised"]:
        print("REPRODUCED")
        return 1
    print("not reproduced")
    return 0
