"""C16 - the scikit-learn adapter's transform / mahalanobis / score are the filter's NIS (E1)."""
from __future__ import annotations

import json
import math
import random

import numpy as np
import z3

from corpus import programs as CP
from engine.symreal import expr as X
from engine.symreal.core import SymReal, explore, lift, qval, uf
from engine.symreal.shim import installed

from . import pyh
from .common import Part, Q, Report, approx_equal, finish, pmap, quiet, solve, tier_timeout_ms, write_replay
from .oblig import prove_equal, prove_valid, reach

PID = "C16"
DT = 0.1  # the adapter's fixed prediction step (by-hand runs always use this)
MAX_DT_CFG = 0.25  # configured maximum step of the estimators under test: deliberately NOT 0.1


def make_adapter(p, calmap, pnoise, snoise, k, cse=True, max_dt=0.1):
    from formak import python

    st = p.symtab()
    # max_dt == "no-config": the estimator is created without a configuration (the library's default)
    cfg = None if max_dt == "no-config" else python.Config(common_subexpression_elimination=cse, innovation_filtering=k, max_dt_sec=max_dt)
    return python.SklearnEKFAdapter.Create(p.ui_model(), {st[c]: pnoise[c] for c in p.control}, p.sympy_sensors(), {key: dict(snoise[key]) for key in p.sensors}, calmap, config=cfg)


def width(p):
    return len(p.control) + sum(len(p.sensors[k]) for k in p.sensors)


def by_hand(ekf, p, Xrows, dt):
    """Drive the exported filter by hand as the property describes: predict with the fixed step, then update the
    sensors in key order with the columns assigned to them; NIS = innovation^T S^-1 innovation (np = the module in use)."""
    import formak.python as fp

    np_ = fp.np
    state, cov = ekf.State(), ekf.Covariance()
    sc = p.s_control()
    out, trace = [], []
    for row in Xrows:
        col = 0
        cvals = {c: row[col + i] for i, c in enumerate(sc)}
        col += len(sc)
        state, cov = ekf.process_model(dt, state, cov, ekf.Control(**cvals))
        nis_row = []
        for key in p.s_sensors():
            rs = p.s_readings(key)
            rd = ekf.make_reading(key, **{r: row[col + i] for i, r in enumerate(rs)})
            col += len(rs)
            state, cov = ekf.sensor_model(state=state, covariance=cov, sensor_key=key, sensor_reading=rd)
            inn = ekf.innovations[key]
            S = ekf.sensor_prediction_uncertainty[key]
            Sinv = np_.linalg.inv(S)
            m = len(rs)
            acc = 0.0
            for i in range(m):
                for j in range(m):
                    acc = acc + inn[i, 0] * Sinv[i, j] * inn[j, 0]
            nis_row.append(acc)
            trace.append((key, inn.copy(), S.copy()))
        out.append(nis_row)
    return out, trace


def float_run(p, e, k, rows, int_matrix=False, max_dt=None):
    """Real adapter and by-hand real filter on floats (int_matrix: the data matrix is handed over with an integer dtype)."""

    def go():
        with quiet():
            pn, sn = pyh.noise_vals_from_env(p, e)
            ad = make_adapter(p, pyh.float_calibration_map(p, e), {c: float(pn[c]) for c in p.control}, {key: {r: float(sn[key][r]) for r in p.sensors[key]} for key in p.sensors}, k, max_dt=MAX_DT_CFG if max_dt is None else max_dt)
            Xf = np.array([[float(e[f"X_{r}_{j}"]) for j in range(width(p))] for r in range(rows)])
            if int_matrix:
                Xf = Xf.astype(np.int64)
            params0 = ad.get_params()
            tr = np.array(ad.transform(Xf), dtype=float)
            tr2 = np.array(ad.transform(Xf), dtype=float)
            mh = np.array(ad.mahalanobis(Xf), dtype=float)
            sc = ad.score(Xf, explain_score=True)
            params1 = ad.get_params()
            ekf = ad.export_python()
            hand, _ = by_hand(ekf, p, [[float(v) for v in r] for r in Xf], DT)
            return {"transform": tr, "transform2": tr2, "mahalanobis": mh, "score": float(sc[0]), "hand": np.array(hand, dtype=float), "params_same": all(params0[k_] is params1[k_] for k_ in params0)}

    return pyh.gate_guard(go)


def float_run_second(p, e, rows):
    """Real adapter: transform(X) then transform(Xb) on the same object; by-hand NIS for Xb."""

    def go():
        with quiet():
            pn, sn = pyh.noise_vals_from_env(p, e)
            ad = make_adapter(p, pyh.float_calibration_map(p, e), {c: float(pn[c]) for c in p.control}, {key: {r: float(sn[key][r]) for r in p.sensors[key]} for key in p.sensors}, None, max_dt=MAX_DT_CFG)
            Xa = np.array([[float(e.get(f"X_{r}_{j}", 0.25)) for j in range(width(p))] for r in range(rows)])
            Xb = np.array([[float(e.get(f"Xb_{r}_{j}", -0.5)) for j in range(width(p))] for r in range(rows)])
            ad.transform(Xa)
            ad.set_params(common_subexpression_elimination=False, max_dt_sec=0.5, innovation_filtering=float(e.get("k2", 0.5)))
            trb = np.array(ad.transform(Xb), dtype=float)
            hand, _ = by_hand(ad.export_python(), p, [list(r) for r in Xb], DT)
            return {"transform_b": trb, "hand_b": np.array(hand, dtype=float)}

    return pyh.gate_guard(go)


def float_score_spec(nis, p, e):
    pn, sn = pyh.noise_vals_from_env(p, e)
    flat = np.array(nis, dtype=float).reshape(-1)
    avg = float(np.mean(np.sqrt(flat))) ** 2
    var = float(np.sum(flat))
    msc = sum(float(pn[c]) ** 2 for c in p.control) + sum(float(sn[key][r]) ** 2 for key in p.sensors for r in p.sensors[key])
    return 10.0 * avg + (1.0 / var + var) / 2.0 + 0.01 * msc


def task(p, k, rows, tier, seed):
    part = Part()
    part.program(p.id)
    part.fn("python.SklearnEKFAdapter.transform", "python.SklearnEKFAdapter.mahalanobis", "python.SklearnEKFAdapter.score", "python.SklearnEKFAdapter.get_params", "python.SklearnEKFAdapter.export_python", "python.compile_ekf", "python.ExtendedKalmanFilter.process_model", "python.ExtendedKalmanFilter.sensor_model")
    env = pyh.input_env(p)
    pn, sn = pyh.noise_env(p)
    W = width(p)
    Xv = [[z3.Real(f"X_{r}_{j}") for j in range(W)] for r in range(rows)]
    Xv2 = [[z3.Real(f"Xb_{r}_{j}") for j in range(W)] for r in range(rows)]
    _, _, _, _, a0 = __import__("checks.c02", fromlist=["spec_pieces"]).spec_pieces(p, env)
    assumes = pyh.noise_positive(pn, sn)
    tmo = tier_timeout_ms(tier)
    key_base = f"{p.id}/k={k}/rows={rows}"
    info = {"program": p.id, "k": k, "rows": rows}

    def seeded_envs(rng, cnt):
        out = []
        for _ in range(cnt):
            e = {c: rng.randint(-8, 8) / 8.0 for c in p.calibration}
            for c in p.control:
                e[f"pn_{c}"] = rng.choice([0.25, 0.5, 1.0])
            for key in p.sensors:
                for r in p.sensors[key]:
                    e[f"sn_{key}_{r}"] = rng.choice([0.25, 0.5, 1.0, 2.0])
            for r in range(rows):
                for j in range(W):
                    e[f"X_{r}_{j}"] = rng.randint(-12, 12) / 8.0
            out.append(e)
        return out

    def seeded_envs_b(rng, cnt):
        out = seeded_envs(rng, max(cnt, 12))
        for i, e in enumerate(out):
            e["k2"] = rng.choice([0.125, 0.5, 2.0])
            far = i % 2 == 0  # readings far from the prediction: discarded once filtering is switched on
            for r in range(rows):
                for j in range(W):
                    e[f"Xb_{r}_{j}"] = (rng.choice([-9.0, 7.0, 11.0]) if far and j >= len(p.control) and rng.random() < 0.6 else rng.randint(-12, 12) / 8.0)
        return out
        for e in out:
            e["k2"] = rng.choice([0.125, 0.5, 2.0])
            for r in range(rows):
                for j in range(W):
                    e[f"Xb_{r}_{j}"] = rng.randint(-12, 12) / 8.0
        return out

    # concrete behaviour of the real code on valid data
    conc = []
    for e in seeded_envs(random.Random(seed + 31), 2):
        try:
            got = float_run(p, e, k if k != "sym" else 3.0, rows)
        except pyh.GateRejected:
            continue
        except Exception as ex:
            path = write_replay(PID, {"key": key_base + "/concrete-exception", "info": info, "inputs": e, "exception": f"{type(ex).__name__}: {ex}"})
            part.violation(key_base + "/concrete-exception", f"adapter raises {type(ex).__name__}: {ex} on a valid data matrix", path)
            return part.d
        probs = concrete_problems(p, e, got)
        if probs:
            path = write_replay(PID, {"key": key_base + "/concrete", "info": info, "inputs": e, "problems": probs})
            part.violation(key_base + "/concrete", f"adapter outputs differ from the by-hand filter at a seeded matrix: {probs[0]}", path)
            return part.d
        conc.append(e)

    # an integer-typed data matrix is a valid data matrix (dtype is outside what the symbolic run can represent: concrete)
    e_int = seeded_envs(random.Random(seed + 77), 1)[0]
    for r in range(rows):
        for j in range(W):
            e_int[f"X_{r}_{j}"] = float(random.Random(seed + 13 * r + j).randint(-2, 2))
    try:
        got_i = float_run(p, e_int, k if k != "sym" else 3.0, rows, int_matrix=True)
        probs = concrete_problems(p, e_int, got_i)
        part.record(Q("sat" if probs else "unsat", None, 0.0, ""), f"{key_base}: integer-typed data matrix gives the by-hand NIS (concrete)")
        if probs:
            path = write_replay(PID, {"key": key_base + "/int-matrix", "info": dict(info, int_matrix=True), "inputs": e_int, "problems": probs})
            part.violation(key_base + "/int-matrix", f"adapter outputs for an integer-typed data matrix differ from the by-hand filter: {probs[0]}", path)
            return part.d
    except pyh.GateRejected:
        pass

    def harness():
        with installed(), quiet():
            calmap = pyh.sym_calibration_map(p, env)
            ad = make_adapter(p, calmap, {c: SymReal(pn[c]) for c in p.control}, {key: {r: SymReal(sn[key][r]) for r in p.sensors[key]} for key in p.sensors}, SymReal(z3.Real("kthr")) if k == "sym" else k, max_dt=MAX_DT_CFG)
            Xo = np.empty((rows, W), dtype=object)
            for r in range(rows):
                for j in range(W):
                    Xo[r, j] = SymReal(Xv[r][j])
            params0 = dict(ad.get_params())
            snap0 = ({kk: (vv.t if isinstance(vv, SymReal) else vv) for kk, vv in params0["process_noise"].items()}, {key: dict(v) for key, v in params0["sensor_noises"].items()})
            tr = ad.transform(Xo)
            tr2 = ad.transform(Xo)
            mh = ad.mahalanobis(Xo)
            sc = ad.score(Xo, explain_score=True)
            params1 = dict(ad.get_params())
            ekf = ad.export_python()
            hand, trace = by_hand(ekf, p, [[SymReal(v) for v in row] for row in Xv], DT)
            trb = handb = None
            if k is None:
                # history dimension: the same estimator object transforms a second, independent data matrix
                Xb = np.empty((rows, W), dtype=object)
                for r in range(rows):
                    for j in range(W):
                        Xb[r, j] = SymReal(Xv2[r][j])
                # ... after a configuration field was changed through set_params (a cached filter would go stale)
                ad.set_params(common_subexpression_elimination=False, max_dt_sec=0.5, innovation_filtering=SymReal(z3.Real("k2")))
                trb = ad.transform(Xb)
                handb, _ = by_hand(ad.export_python(), p, [[SymReal(v) for v in row] for row in Xv2], DT)
            return tr, tr2, mh, sc, params0, params1, snap0, hand, trace, trb, handb

    cfg = {"gate": "assume", "inverse": "closed", "any_gate": "assume-false", "prune": False, "assume_false_sites": [("transform", "< 0.0"), ("mahalanobis", "< 0.0")]}
    ass = assumes + ([z3.Real("kthr") > 0] if k == "sym" else []) + ([z3.Real("k2") > 0] if k is None else [])
    leaves = explore(harness, assumes=ass, config=cfg, max_paths=64)
    part.leaves(leaves)
    bad = [l for l in leaves if l.status != "ok"]
    if bad:
        part.harness_error(f"{key_base}: symbolic path failed: {bad[0]}")
        return part.d
    nsens = len(p.sensors)
    for li, l in enumerate(leaves):
        tr, tr2, mh, sc, params0, params1, snap0, hand, trace, trb, handb = l.value
        pa = l.assumes + l.pc
        if solve(pa, 5000).status == "unsat":
            continue
        tag = f"{key_base}/path{li}"
        if tuple(np.shape(tr)) != (rows, nsens):
            e = seeded_envs(random.Random(seed), 1)[0]
            path = write_replay(PID, {"key": key_base + "/shape", "info": info, "inputs": e})
            part.violation(key_base + "/shape", f"transform returns shape {np.shape(tr)}, expected {(rows, nsens)}", path)
            return part.d
        flat_hand = [hand[r][s] for r in range(rows) for s in range(nsens)]

        def mk_replay(what, idx):
            def replay(e):
                got = float_run(p, e, k if k != "sym" else float(e.get("kthr", 3.0)), rows)
                if what == "transform":
                    r_, s_ = divmod(idx, nsens)
                    return {"impl": float(got["transform"][r_, s_]), "spec": float(got["hand"][r_, s_])}
                if what == "mahalanobis":
                    return {"impl": float(got["mahalanobis"][idx]), "spec": float(got["hand"].reshape(-1)[idx])}
                return {"impl": got["score"], "spec": float_score_spec(got["hand"], p, e)}

            return replay

        allv = {f"X_{r}_{j}": Xv[r][j] for r in range(rows) for j in range(W)}
        allv.update({c: env[c] for c in p.calibration})
        for r in range(rows):
            for s_, key in enumerate(p.s_sensors()):
                idx = r * nsens + s_
                prove_equal(part, PID, f"{tag}: transform[{r},{key}] == by-hand NIS", lift(tr[r, s_]), lift(hand[r][s_]), pa, tmo, replay=mk_replay("transform", idx), key=f"{key_base}/transform[{r},{key}]", info=info, all_vars=allv, seeded_envs=seeded_envs)
                prove_equal(part, PID, f"{tag}: repeated transform[{r},{key}] identical", lift(tr2[r, s_]), lift(tr[r, s_]), pa, tmo, key=f"{key_base}/repeat")
                prove_equal(part, PID, f"{tag}: mahalanobis[{idx}] == transform flattened", lift(mh.reshape(-1)[idx]), lift(tr[r, s_]), pa, tmo, replay=mk_replay("mahalanobis", idx), key=f"{key_base}/mahalanobis[{idx}]", info=info, all_vars=allv, seeded_envs=seeded_envs)
        if trb is not None:
            for r in range(rows):
                for s_, key in enumerate(p.s_sensors()):

                    def replay_b(e, r=r, s_=s_):
                        got = float_run_second(p, e, rows)
                        return {"impl": float(got["transform_b"][r, s_]), "spec": float(got["hand_b"][r, s_])}

                    allb = dict(allv)
                    allb["k2"] = z3.Real("k2")
                    allb.update({f"Xb_{r2}_{j}": Xv2[r2][j] for r2 in range(rows) for j in range(W)})
                    prove_equal(part, PID, f"{tag}: second data matrix on the same estimator: transform[{r},{key}] == by-hand NIS", lift(trb[r, s_]), lift(handb[r][s_]), pa, tmo, replay=replay_b, key=f"{key_base}/second-matrix[{r},{key}]", info=dict(info, second=True), all_vars=allb, seeded_envs=seeded_envs_b)
        # score == documented combination of the NIS values (uf_sqrt)
        nis = [lift(v) for v in flat_hand]
        sq = [uf("sqrt")(v) for v in nis]
        mean = sum(sq[1:], sq[0]) / len(sq)
        var = sum(nis[1:], nis[0])
        msc = z3.RealVal(0)
        for c in p.s_control():
            msc = msc + pn[c] * pn[c]
        for key in p.s_sensors():
            for r_ in p.s_readings(key):
                msc = msc + sn[key][r_] * sn[key][r_]
        spec_score = qval(10.0) * (mean * mean) + (1 / var + var) / 2 + qval(0.01) * msc
        # cut at the NIS values: transform == by-hand NIS is its own obligation above, so the score clause is decided over
        # the implementation's own transform terms abstracted to fresh variables (the nested NIS terms make the direct
        # query time out for two-reading sensors and two rows)
        tr_terms = [lift(tr[r, s_]) for r in range(rows) for s_ in range(nsens)]
        fresh = [z3.Real(f"nis!{i}") for i in range(len(tr_terms))]
        pairs = [(a, b) for a, b in zip(tr_terms, fresh) if not z3.is_rational_value(a)]
        cut_done = False
        if pairs and len({a.get_id() for a, _ in pairs}) == len(pairs):
            impl_cut = z3.substitute(lift(sc[0]), *pairs)
            from .common import free_vars as _fv

            if not any(nm.startswith("X_") for nm in _fv([impl_cut])):
                sqf = [uf("sqrt")(v) for v in fresh]
                meanf = sum(sqf[1:], sqf[0]) / len(sqf)
                varf = sum(fresh[1:], fresh[0])
                spec_cut = qval(10.0) * (meanf * meanf) + (1 / varf + varf) / 2 + qval(0.01) * msc
                st_ = prove_equal(part, PID, f"{tag}: score == 10*mean(sqrt NIS)^2 + (1/sum + sum)/2 + 0.01*sum(noise^2) over the transform values (cut at the NIS terms)", impl_cut, spec_cut, [varf != 0] + [v >= 0 for v in fresh] + pyh.noise_positive(pn, sn), min(tmo, 30000), key=f"{key_base}/score", info=info, big_box=False)
                cut_done = st_ == "proved"
        if not cut_done:
            prove_equal(part, PID, f"{tag}: score == 10*mean(sqrt NIS)^2 + (1/sum + sum)/2 + 0.01*sum(noise^2)", lift(sc[0]), spec_score, pa + [var != 0], min(tmo, 30000), replay=mk_replay("score", 0), key=f"{key_base}/score", info=info, all_vars=allv, seeded_envs=seeded_envs)
        # parameters unchanged by the calls
        same = all(params0[kk] is params1[kk] for kk in params0)
        pn_same = all((params1["process_noise"][kk].t if isinstance(params1["process_noise"][kk], SymReal) else params1["process_noise"][kk]) is snap0[0][kk] or lift(params1["process_noise"][kk]).eq(lift(snap0[0][kk])) for kk in snap0[0])
        sn_same = all(lift(params1["sensor_noises"][key][r_]).eq(lift(snap0[1][key][r_])) for key in snap0[1] for r_ in snap0[1][key]) and all(set(params1["sensor_noises"][key]) == set(snap0[1][key]) for key in snap0[1])
        okp = same and pn_same and sn_same
        part.record(Q("unsat" if okp else "sat", None, 0.0, ""), f"{tag}: get_params() identical objects and noise terms before/after transform, mahalanobis, score")
        if not okp:
            e = seeded_envs(random.Random(seed), 1)[0]
            path = write_replay(PID, {"key": key_base + "/params-changed", "info": info, "inputs": e})
            part.violation(key_base + "/params-changed", "transform/mahalanobis/score changed the estimator's parameters", path)
        # non-negativity: output == closed-form quadratic form over the recorded (innovation, S); generic lemma below
        ti = 0
        for r in range(rows):
            for s_, key in enumerate(p.s_sensors()):
                _, inn, S = trace[ti]
                ti += 1
                m = inn.shape[0]
                if m <= 2:
                    cf = closed_nis([lift(inn[i, 0]) for i in range(m)], [[lift(S[i, j]) for j in range(m)] for i in range(m)])
                    prove_equal(part, PID, f"{tag}: transform[{r},{key}] == closed-form z'S^-1 z over the recorded innovation and S (m={m})", lift(tr[r, s_]), cf, pa, tmo, key=f"{key_base}/closed-form[{r},{key}]")
    # generic non-negativity lemma for the closed form (m = 1, 2): S symmetric PD => z'S^-1 z >= 0
    for m in (1, 2):
        zz = [z3.Real(f"lz{i}") for i in range(m)]
        SS = [[z3.Real(f"ls{min(i, j)}{max(i, j)}") for j in range(m)] for i in range(m)]
        pd = [SS[0][0] > 0] + ([SS[0][0] * SS[1][1] - SS[0][1] * SS[0][1] > 0] if m == 2 else [])
        prove_valid(part, f"lemma: S symmetric positive definite => closed-form z'S^-1 z >= 0 (m={m})", closed_nis(zz, SS) >= 0, pd, tmo)
    reach(part, key_base + "/assumptions-sat", ass)
    part.sample({"program": p.id, "k": k, "rows": rows, "paths": len(leaves), "width": W, "columns": p.s_control() + [f"{key}.{r}" for key in p.s_sensors() for r in p.s_readings(key)]})
    return part.d


def closed_nis(z, S):
    m = len(z)
    if m == 1:
        return z[0] * (1 / S[0][0]) * z[0]
    a, b, c, d = S[0][0], S[0][1], S[1][0], S[1][1]
    det = a * d - b * c
    Xi = [[d / det, -b / det], [-c / det, a / det]]
    acc = z3.RealVal(0)
    for i in range(2):
        for j in range(2):
            acc = acc + z[i] * Xi[i][j] * z[j]
    return acc


def concrete_problems(p, e, got):
    probs = []
    if got["transform"].shape != got["hand"].shape:
        return [f"shape {got['transform'].shape} vs by-hand {got['hand'].shape}"]
    if not np.allclose(got["transform"], got["hand"], rtol=1e-7, atol=1e-10):
        probs.append(f"transform {got['transform'].tolist()} != by-hand NIS {got['hand'].tolist()}")
    if np.any(got["transform"] < 0):
        probs.append("negative NIS")
    if not np.array_equal(got["transform"], got["transform2"]):
        probs.append("repeated transform differs")
    if not np.allclose(got["mahalanobis"], got["transform"].reshape(-1), rtol=1e-12, atol=0):
        probs.append(f"mahalanobis {got['mahalanobis'].tolist()} != flattened transform")
    want = float_score_spec(got["hand"], p, e)
    if not approx_equal(got["score"], want, rel=1e-7):
        probs.append(f"score {got['score']} != documented combination {want}")
    if not got["params_same"]:
        probs.append("parameters changed")
    return probs


def task_variants(p, k, rows, max_dt, tier, seed):
    """Concrete replays of the adapter against the by-hand filter for configurations and magnitudes the symbolic run
    does not distinguish: a configured maximum step *below* the adapter's fixed 0.1, sensors whose innovation
    covariance is tiny in absolute terms (P25), data far from zero."""
    part = Part()
    part.program(p.id)
    part.fn("python.SklearnEKFAdapter.transform", "python.SklearnEKFAdapter.mahalanobis", "python.SklearnEKFAdapter.score")
    rng = random.Random(seed + 77)
    W = width(p)
    kb = f"{p.id}/k={k}/rows={rows}/max_dt={max_dt}/variants"
    info = {"program": p.id, "k": k, "rows": rows, "kind": "variant", "max_dt": max_dt}
    for t in range(3 if tier == "quick" else 8):
        e = {c: rng.randint(-8, 8) / 8.0 for c in p.calibration}
        scale = [1.0, 2.0 ** -20, 2.0 ** 10][t % 3]
        for r in range(rows):
            for j in range(W):
                e[f"X_{r}_{j}"] = rng.randint(-12, 12) / 8.0 * (scale if j >= len(p.control) else 1.0)
        try:
            got = float_run(p, e, k, rows, max_dt=max_dt)
        except pyh.GateRejected:
            continue
        except Exception as ex:
            path = write_replay(PID, {"key": kb + "/exception", "info": info, "inputs": e, "exception": f"{type(ex).__name__}: {ex}"})
            part.violation(kb + "/exception", f"adapter raises {type(ex).__name__}: {ex} on a valid data matrix", path)
            return part.d
        probs = concrete_problems(p, e, got)
        part.record(Q("sat" if probs else "unsat", None, 0.0, ""), f"{kb}: adapter outputs == by-hand filter at a seeded matrix (scale {scale:g}; concrete replay)")
        if probs:
            path = write_replay(PID, {"key": kb, "info": info, "inputs": e, "problems": probs})
            part.violation(kb, f"adapter outputs differ from the by-hand filter (max_dt_sec={max_dt}, data scale {scale:g}): {probs[0][:300]}", path)
            return part.d
    return part.d


def configs(tier, seed):
    if tier == "quick":
        return [(CP.P3(), None, 1), (CP.P3(), 4.0, 1), (CP.P1(), None, 2)]
    return [(CP.P3(), None, 1), (CP.P3(), 4.0, 1), (CP.P3(), "sym", 1), (CP.P1(), None, 2), (CP.P1(), 3.0, 2), (CP.P3().restrict(calibration=False), None, 2), (CP.P10(), None, 1), (CP.P2(), None, 2), (CP.P3().restrict(control=False), 4.0, 1)]


def _dispatch(fn, args):
    return fn(*args)


def run(tier, seed):
    rep = Report(PID, tier, seed, "translation_validation")
    cfgs = configs(tier, seed)
    vts = [(CP.P3(), None, 1, 0.05), (CP.P25(), None, 2, 0.25), (CP.P1(), 4.0, 2, 0.03125), (CP.P8(), None, 2, 0.25), (CP.P17(), None, 2, 0.25), (CP.P16(), None, 1, 0.25), (CP.P12(), None, 2, 0.25), (CP.P1(), 5.0, 2, "no-config")]
    if tier != "quick":
        vts += [(CP.P25(), 4.0, 1, 0.05), (CP.P10(), None, 1, 0.0625), (CP.P17(), None, 1, 0.05)]
    tasks = [(task, (p, k, rows, tier, seed)) for p, k, rows in cfgs] + [(task_variants, (p, k, rows, md, tier, seed)) for p, k, rows, md in vts]
    for d in pmap(_dispatch, tasks):
        rep.merge(d)
    rep.bounds = {"configurations": [f"{p.id}/k={k}/rows={rows}" for p, k, rows in cfgs], "data_matrix": "all real entries; rows <= 1-2; width = controls + sum of sensor sizes", "sensors": "sizes 1 and 2 (closed-form inverse), any number of controls", "outside": "floating-point rounding; matrices with more rows (each row repeats the same code on the previous row's result)"}
    rep.assumptions = ["validity gates and the sign gates `if np.any(x < 0): raise` assumed not to fire (non-negativity is proved separately: output == closed form over recorded (z, S), plus the lemma S PD => z'S^-1 z >= 0; S PD is C09's inductive lemma)", "sqrt as an uninterpreted function in the score", "closed-form inverse for m <= 2"]
    return finish(
        rep,
        explanation="transform / mahalanobis / score of the real adapter are executed on a symbolic data matrix, symbolic noise and calibration; next to it the exported filter is driven by hand as the property describes (predict with 0.1, then sensors in key order on their assigned columns). Per feasible path: every transform entry == by-hand NIS, repeated call identical, mahalanobis == flattened transform, score == documented combination, parameters untouched, and each entry == closed-form quadratic form with the lemma S PD => NIS >= 0.",
        rule="one obligation per (configuration, path, row, sensor, clause)",
        trusted_base=["z3 5.1", "engine/symreal", "by-hand driver written from the property statement"],
    )


def replay(path):
    with open(path) as f:
        r = json.load(f)
    info = r["info"]
    ps = {p.id: p for p, _, _ in configs("thorough", 0)}
    for q in CP.catalogue():
        ps.setdefault(q.id, q)
    p = ps[info["program"]]
    k = info["k"] if info["k"] != "sym" else 3.0
    if info.get("second"):
        got = float_run_second(p, r["inputs"], info["rows"])
        bad = not np.allclose(got["transform_b"], got["hand_b"], rtol=1e-7, atol=1e-10)
        print(got)
        print("REPRODUCED" if bad else "not reproduced")
        return 1 if bad else 0
    try:
        got = float_run(p, r["inputs"], k, info["rows"], int_matrix=info.get("int_matrix", False), max_dt=info.get("max_dt"))
    except pyh.GateRejected as ex:
        print("gate rejected", ex)
        return 0
    except Exception as ex:
        print(f"REPRODUCED: raises {type(ex).__name__}: {ex}")
        return 1
    probs = concrete_problems(p, r["inputs"], got)
    print(probs)
    print("REPRODUCED" if probs else "not reproduced")
    return 1 if probs else 0
