"""C17 - estimator parameters round-trip; fitting only retunes noise (E1 with the optimiser as a nondeterministic stub)."""
from __future__ import annotations

import dataclasses
import json
import random
from types import SimpleNamespace

import numpy as np
import z3

from corpus import programs as CP
from engine.symreal.core import SymBool, SymReal, decide, explore, lift, qval
from engine.symreal.shim import installed

from . import pyh
from .c16 import make_adapter, width
from .common import Part, Q, Report, approx_equal, finish, pmap, quiet, solve, tier_timeout_ms, write_replay
from .oblig import prove_valid, reach

PID = "C17"
TOP = ["symbolic_model", "process_noise", "sensor_models", "sensor_noises", "calibration_map", "config"]


def same_value(a, b):
    """Term-level equality of parameter values (SymReal terms by structure, everything else by ==/is)."""
    if a is b:
        return True
    if isinstance(a, SymReal) or isinstance(b, SymReal):
        try:
            return lift(a).eq(lift(b))
        except TypeError:
            return False
    if isinstance(a, dict) and isinstance(b, dict):
        if len(a) != len(b):
            return False
        for k in a:
            if k not in b or not same_value(a[k], b[k]):
                return False
        return True
    if dataclasses.is_dataclass(a) and dataclasses.is_dataclass(b) and not isinstance(a, type):
        return all(same_value(getattr(a, f.name), getattr(b, f.name)) for f in dataclasses.fields(a))
    if isinstance(a, (tuple, list)) and isinstance(b, (tuple, list)):
        return len(a) == len(b) and all(same_value(x, y) for x, y in zip(a, b))
    if hasattr(a, "state_model") and hasattr(b, "state_model"):
        return set(a.state) == set(b.state) and set(a.control) == set(b.control) and set(a.calibration) == set(b.calibration) and a.dt == b.dt and a.state_model == b.state_model
    try:
        return bool(a == b)
    except Exception:
        return False


def sym_adapter(p, env, pn, sn, k=None, max_dt=0.1):
    ad = make_adapter(p, pyh.sym_calibration_map(p, env), {c: SymReal(pn[c]) for c in p.control}, {key: {r: SymReal(sn[key][r]) for r in p.sensors[key]} for key in p.sensors}, k)
    return ad


def float_adapter(p, e, k=None):
    pn, sn = pyh.noise_vals_from_env(p, e)
    return make_adapter(p, pyh.float_calibration_map(p, {c: e.get(c, p.calibration_values.get(c, 0.5)) for c in p.calibration}), {c: float(pn[c]) for c in p.control}, {key: {r: float(sn[key][r]) for r in p.sensors[key]} for key in p.sensors}, k)


# ------------------------------------------------------------------------------------------- (a) round trips


def task_params(p, tier, seed):
    part = Part()
    part.program(p.id)
    part.fn("python.SklearnEKFAdapter.get_params", "python.SklearnEKFAdapter.set_params", "python.SklearnEKFAdapter.__init__", "python.SklearnEKFAdapter.Create", "sklearn.base.clone")
    from formak import python
    from formak.exceptions import ModelConstructionError
    from sklearn.base import clone

    env = pyh.input_env(p)
    pn, sn = pyh.noise_env(p)
    key_base = f"{p.id}/params"
    info = {"program": p.id, "kind": "params"}

    def viol(key, msg):
        path = write_replay(PID, {"key": f"{key_base}/{key}", "info": dict(info, clause=key), "inputs": {}})
        part.violation(f"{key_base}/{key}", msg, path)

    with installed(), quiet():
        ad = sym_adapter(p, env, pn, sn, k=SymReal(z3.Real("k0")))
        before = dict(ad.get_params())
        ad.set_params(**ad.get_params())
        after = dict(ad.get_params())
        ok = all(same_value(before[k_], after[k_]) for k_ in TOP) and set(after) == set(TOP)
        part.record(Q("unsat" if ok else "sat", None, 0.0, ""), f"{key_base}: get_params -> set_params leaves all six parameters term-identical")
        if not ok:
            viol("get-set", "get_params -> set_params changed a parameter")
        cl = clone(ad)
        cp = cl.get_params()
        ok = all(same_value(before[k_], cp[k_]) for k_ in TOP) and set(cp) == set(TOP)
        part.record(Q("unsat" if ok else "sat", None, 0.0, ""), f"{key_base}: sklearn.base.clone keeps all six parameters (values, noise terms, config)")
        if not ok:
            viol("clone", f"clone changed parameters: {[k_ for k_ in TOP if not same_value(before[k_], cp[k_])]}")
        # each Config field: set exactly that field
        new_vals = {
            "common_subexpression_elimination": not before["config"].common_subexpression_elimination,
            "python_modules": ("math",),
            "extra_validation": not before["config"].extra_validation,
            "max_dt_sec": SymReal(z3.Real("new_max_dt")),
            "innovation_filtering": SymReal(z3.Real("new_k")),
        }
        fields = [f.name for f in dataclasses.fields(python.Config)]
        if set(fields) != set(new_vals):
            part.harness_error(f"Config fields changed: {fields}")
        for fld in fields:
            ad2 = sym_adapter(p, env, pn, sn, k=SymReal(z3.Real("k0")))
            b = dict(ad2.get_params())
            ad2.set_params(**{fld: new_vals[fld]})
            a = dict(ad2.get_params())
            ok_field = same_value(getattr(a["config"], fld), new_vals[fld])
            ok_others = all(same_value(getattr(a["config"], f2), getattr(b["config"], f2)) for f2 in fields if f2 != fld)
            ok_top = all(a[k_] is b[k_] for k_ in TOP if k_ != "config")
            ok = ok_field and ok_others and ok_top
            part.record(Q("unsat" if ok else "sat", None, 0.0, ""), f"{key_base}: set_params({fld}=v) changes exactly that configuration field")
            if not ok:
                viol(f"set-{fld}", f"set_params({fld}=...) : field set={ok_field}, other fields unchanged={ok_others}, top-level unchanged={ok_top}")
        # special numeric values of the configuration fields survive set_params unchanged (type and value)
        import numpy as _np

        for fld, specials in (("innovation_filtering", [0.0, 0, -1.5, 1e-12, 1e9, None, _np.float64(0.0), _np.float64(2.5)]), ("max_dt_sec", [1e-9, 0.5, 1e3, _np.float64(0.25)])):
            for val in specials:
                ad6 = sym_adapter(p, env, pn, sn, k=SymReal(z3.Real("k0")))
                ad6.set_params(**{fld: val})
                got = getattr(ad6.get_params()["config"], fld)
                ok = (got is None) == (val is None) and (val is None or (not isinstance(got, SymReal) and float(got) == float(val)))
                part.record(Q("unsat" if ok else "sat", None, 0.0, ""), f"{key_base}: set_params({fld}={val!r}) stores exactly that value")
                if not ok:
                    viol(f"set-{fld}-special", f"set_params({fld}={val!r}) stored {got!r}")
        # several configuration fields in ONE call: every one of them lands (this is how a grid search drives it)
        import itertools as _it

        for f1, f2 in _it.permutations(fields, 2):
            ad4 = sym_adapter(p, env, pn, sn, k=SymReal(z3.Real("k0")))
            b = dict(ad4.get_params())
            ad4.set_params(**{f1: new_vals[f1], f2: new_vals[f2]})
            a = dict(ad4.get_params())
            ok = same_value(getattr(a["config"], f1), new_vals[f1]) and same_value(getattr(a["config"], f2), new_vals[f2]) and all(same_value(getattr(a["config"], f3), getattr(b["config"], f3)) for f3 in fields if f3 not in (f1, f2)) and all(a[k_] is b[k_] for k_ in TOP if k_ != "config")
            part.record(Q("unsat" if ok else "sat", None, 0.0, ""), f"{key_base}: set_params({f1}=v1, {f2}=v2) in one call sets both fields and nothing else")
            if not ok:
                viol(f"set-two-fields", f"set_params({f1}=..., {f2}=...) in one call: config is {a['config']}")
                break
        # a top-level parameter and a configuration field in one call
        ad5 = sym_adapter(p, env, pn, sn, k=SymReal(z3.Real("k0")))
        newpn = {st_: SymReal(z3.Real(f"newpn_{i}")) for i, st_ in enumerate(ad5.get_params()["process_noise"])}
        ad5.set_params(process_noise=newpn, max_dt_sec=new_vals["max_dt_sec"])
        a = ad5.get_params()
        ok = a["process_noise"] is newpn and same_value(a["config"].max_dt_sec, new_vals["max_dt_sec"])
        part.record(Q("unsat" if ok else "sat", None, 0.0, ""), f"{key_base}: set_params(process_noise=..., max_dt_sec=...) in one call sets both")
        if not ok:
            viol("set-top-and-field", "set_params(process_noise=..., max_dt_sec=...) in one call lost one of them")
        # unknown names are refused - on a fresh estimator and on one that has already been used
        used = float_adapter(p, {})
        used.transform(_np.array([[0.25] * width(p), [0.5] * width(p)]))
        attrs = sorted(a_ for a_ in vars(used) if a_ not in TOP)
        for bad in attrs + ["max_dt"]:
            try:
                used.set_params(**{bad: 1.0})
                ok = False
            except ModelConstructionError:
                ok = True
            part.record(Q("unsat" if ok else "sat", None, 0.0, ""), f"{key_base}: unknown parameter name '{bad}' refused after the estimator has been used (transform)")
            if not ok:
                viol("unknown-name-after-use", f"set_params accepts the unknown parameter name '{bad}' once transform() has run")
        for bad in ("max_dt", "innovation_filter", "process_noises", "Config", "sensor_noise", "configs", "model_", "config__process_noise", "config__sensor_noises", "config__symbolic_model", "config__config"):
            ad3 = sym_adapter(p, env, pn, sn, k=None)
            try:
                ad3.set_params(**{bad: 1.0})
                ok = False
            except ModelConstructionError:
                ok = True
            part.record(Q("unsat" if ok else "sat", None, 0.0, ""), f"{key_base}: unknown parameter name '{bad}' refused with ModelConstructionError")
            if not ok:
                viol("unknown-name", f"set_params accepts the unknown parameter name '{bad}'")
    part.sample({"program": p.id, "clauses": "get/set, clone, 5 config fields, unknown names"})
    return part.d


# ------------------------------------------------------------------------------------------- (b) fit


def task_params_concrete(p, tier, seed):
    """Concrete companion of task_params: configuration fields whose previous value has another Python type."""
    import formak.python as _fp

    part = Part()
    part.program(p.id)
    part.fn("python.SklearnEKFAdapter.set_params", "python.SklearnEKFAdapter.get_params")
    key_base = f"{p.id}/params"
    with quiet():
        for cur, fld, val in ((4, "innovation_filtering", 2.5), (1, "max_dt_sec", 0.05), (0.5, "max_dt_sec", 3), (2.0, "innovation_filtering", 7), (None, "innovation_filtering", 0.75), (3, "innovation_filtering", None)):
            ad7 = float_adapter(p, {})
            ad7.set_params(config=_fp.Config(**{fld: cur}))
            ad7.set_params(**{fld: val})
            got = getattr(ad7.get_params()["config"], fld)
            ok = (got is None) == (val is None) and (val is None or float(got) == float(val))
            part.record(Q("unsat" if ok else "sat", None, 0.0, ""), f"{key_base}: set_params({fld}={val!r}) on a configuration holding {fld}={cur!r} stores exactly that value (concrete)")
            if not ok:
                path = write_replay(PID, {"key": f"{key_base}/set-{fld}-over-{type(cur).__name__}", "info": {"program": p.id, "kind": "params-concrete"}, "inputs": {}, "case": [repr(cur), fld, repr(val), repr(got)]})
                part.violation(f"{key_base}/set-{fld}-over-{type(cur).__name__}", f"set_params({fld}={val!r}) on a configuration holding {fld}={cur!r} stored {got!r}", path)
    return part.d


def flat_positions(p):
    """Positions the documented flattening assigns: controls in sorted order, then sensors in key order, readings sorted."""
    pos = [("process", c) for c in p.s_control()]
    for key in p.s_sensors():
        for r in p.s_readings(key):
            pos.append(("sensor", key, r))
    return pos


def task_fit(p, tier, seed, nondefault_config=False):
    part = Part()
    part.program(p.id)
    part.fn("python.SklearnEKFAdapter.fit", "python.SklearnEKFAdapter._flatten_scoring_params", "python.SklearnEKFAdapter._inverse_flatten_scoring_params", "python.nearest_positive_definite", "python.SklearnEKFAdapter.score", "python.SklearnEKFAdapter.set_params")
    import formak.python as fp
    from formak.exceptions import MinimizationFailure

    env = pyh.input_env(p)
    pn, sn = pyh.noise_env(p)
    W = width(p)
    Xv = [z3.Real(f"X_0_{j}") for j in range(W)]
    pos = flat_positions(p)
    xs = [z3.Real(f"opt_x{i}") for i in range(len(pos))]
    succ = z3.Bool("opt_success")
    assumes = pyh.noise_positive(pn, sn)
    tmo = tier_timeout_ms(tier)
    key_base = f"{p.id}/fit" + ("/nondefault-config" if nondefault_config else "")
    info = {"program": p.id, "kind": "fit", "nondefault_config": nondefault_config}
    calls = {"n": 0}

    def stub(fun, x0, **kw):
        """Contract of an optimiser: may evaluate the objective, then returns success in {True, False} and ANY real vector."""
        calls["n"] += 1
        if len(x0) != len(xs):
            raise AssertionError(f"x0 has length {len(x0)}, flattening positions {len(xs)}")
        if tier != "quick":
            fun([SymReal(v) for v in xs])  # quick tier: zero optimiser evaluations (fit itself evaluates the objective at x0 once)
        ok = decide(succ)
        return SimpleNamespace(success=ok, x=[SymReal(v) for v in xs], message="nondeterministic stub")

    def harness():
        with installed(extra=[(fp, "minimize", stub)]), quiet():
            # initial noise concrete (the program's numbers): the clipping max(1e-6, .) then forks only on the optimiser's x
            ad = make_adapter(p, pyh.sym_calibration_map(p, env), {c: float(p.process_noise[c]) for c in p.control}, {k_: {r: float(p.sensor_noise[k_][r]) for r in p.sensors[k_]} for k_ in p.sensors}, None)
            if nondefault_config:
                # an explicit configuration with every field away from its default (fit must hand back exactly this)
                ad.set_params(config=fp.Config(common_subexpression_elimination=False, extra_validation=True, max_dt_sec=0.25, innovation_filtering=None))
            orig = dict(ad.get_params())
            x0 = list(ad._flatten_scoring_params())
            Xo = np.empty((1, W), dtype=object)
            for j in range(W):
                Xo[0, j] = SymReal(Xv[j])
            try:
                ret = ad.fit(Xo)
                failed = None
            except MinimizationFailure as ex:
                ret, failed = None, ex
            return ad, orig, ret, failed, x0

    cfg = {"gate": "assume", "inverse": "closed", "any_gate": "assume-false", "assume_false_sites": [("transform", "< 0.0"), ("mahalanobis", "< 0.0")]}
    leaves = explore(harness, assumes=assumes, config=cfg, max_paths=512)
    part.leaves(leaves)
    bad = [l for l in leaves if l.status != "ok"]
    if bad:
        # the real code raised something other than MinimizationFailure
        l = bad[0]
        path = write_replay(PID, {"key": f"{key_base}/raises", "info": info, "inputs": {}, "exception": repr(l.value)[:300]})
        part.violation(f"{key_base}/raises", f"fit raises {type(l.value).__name__}: {str(l.value)[:160]} (neither MinimizationFailure nor a fitted estimator)", path)
        return part.d
    n_succ = n_fail = 0
    reported = set()

    def viol(key, msg, l):
        if key in reported:
            return
        reported.add(key)
        m = solve(l.assumes + l.pc, 5000)
        inputs = {k_: float(v) for k_, v in (m.model or {}).items() if not isinstance(v, bool)} if m.status == "sat" else {}
        path = write_replay(PID, {"key": f"{key_base}/{key}", "info": dict(info, clause=key), "inputs": inputs})
        part.violation(f"{key_base}/{key}", msg, path)

    st = p.symtab()
    for li, l in enumerate(leaves):
        ad, orig, ret, failed, x0 = l.value
        pa = l.assumes + l.pc
        if solve(pa, 5000).status == "unsat":
            continue
        success_here = solve(pa + [z3.Not(succ)], 3000).status == "unsat"
        tag = f"{key_base}/path{li}"
        if failed is not None:
            n_fail += 1
            part.record(Q("unsat" if not success_here else "sat", None, 0.0, ""), f"{tag}: optimiser reports failure => MinimizationFailure")
            if success_here:
                viol("failure-on-success", "fit raised MinimizationFailure although the optimiser reported success", l)
            continue
        n_succ += 1
        if not success_here:
            part.record(Q("sat", None, 0.0, ""), f"{tag}: optimiser failure ignored")
            viol("failure-ignored", "fit returned an estimator although the optimiser reported failure", l)
            continue
        now = ad.get_params()
        ok_ret = ret is ad
        orig_cfg_fields = dataclasses.asdict(orig["config"])
        ok_same = all(now[k_] is orig[k_] for k_ in ("symbolic_model", "sensor_models", "calibration_map")) and same_value(now["config"], orig["config"]) and dataclasses.asdict(now["config"]) == orig_cfg_fields
        part.record(Q("unsat" if (ok_ret and ok_same) else "sat", None, 0.0, ""), f"{tag}: fit returns the estimator; model, sensor models, calibration and configuration are the original objects")
        if not (ok_ret and ok_same):
            viol("non-noise-changed", f"fit changed something other than noise: returns self={ok_ret}, {[k_ for k_ in ('symbolic_model', 'sensor_models', 'calibration_map') if now[k_] is not orig[k_]]}, config now {now['config']} was {orig_cfg_fields}", l)
        # process noise: exactly the control symbols; value == max(1e-6, x_i) at the control's sorted position; > 0
        pnow = now["process_noise"]
        want_keys = {st[c] for c in p.control}
        ok_keys = set(pnow.keys()) == want_keys
        part.record(Q("unsat" if ok_keys else "sat", None, 0.0, ""), f"{tag}: fitted process noise names exactly the controls")
        if not ok_keys:
            viol("process-noise-keys", f"fitted process noise keys {set(pnow.keys())} != controls {want_keys}", l)
        else:
            for i, (kind, *rest) in enumerate(pos):
                if kind != "process":
                    continue
                c = rest[0]
                v = lift(pnow[st[c]])
                want = z3.If(xs[i] > qval(1e-6), xs[i], qval(1e-6))
                q = prove_valid(part, f"{tag}: process_noise[{c}] == max(1e-6, x[{i}])", v == want, pa, tmo)
                q2 = prove_valid(part, f"{tag}: process_noise[{c}] > 0", v > 0, pa, tmo)
                if q.status == "sat" or q2.status == "sat":
                    viol("process-noise-value", f"fitted process_noise[{c}] = {z3.simplify(v)} is not max(1e-6, x[{i}]) / not positive", l)
        # sensor noise: exactly the original sensors and readings; value == x at the flattening position
        snow = now["sensor_noises"]
        ok_s = set(snow.keys()) == set(p.sensors) and all(set(snow[key].keys()) == set(p.sensors[key]) for key in p.sensors if key in snow)
        part.record(Q("unsat" if ok_s else "sat", None, 0.0, ""), f"{tag}: fitted sensor noise names exactly the original sensors and readings")
        if not ok_s:
            viol("sensor-noise-keys", f"fitted sensor noise names {dict((k_, sorted(v)) for k_, v in snow.items())} != original", l)
        else:
            for i, (kind, *rest) in enumerate(pos):
                if kind != "sensor":
                    continue
                key, r = rest
                v = lift(snow[key][r])
                # position clause: wherever the optimiser's value is a usable magnitude (>= 1e-6) it is stored unchanged
                # under that reading's name (below 1e-6 the library may clip; the property only asks for finiteness)
                q = prove_valid(part, f"{tag}: x[{i}] >= 1e-6 => sensor_noises[{key}][{r}] == x[{i}]", z3.Implies(xs[i] >= qval(1e-6), v == xs[i]), pa, tmo)
                if q.status == "sat":
                    viol("sensor-noise-value", f"fitted sensor_noises[{key}][{r}] = {z3.simplify(v)} is not x[{i}] (for x[{i}] >= 1e-6)", l)
        # the initial point handed to the optimiser is the flattening of the original noise
        for i, (kind, *rest) in enumerate(pos):
            want = float(p.process_noise[rest[0]]) if kind == "process" else float(p.sensor_noise[rest[0]][rest[1]])
            ok0 = (not isinstance(x0[i], SymReal)) and float(x0[i]) == want
            if li == 0:
                part.record(Q("unsat" if ok0 else "sat", None, 0.0, ""), f"{key_base}: x0[{i}] == original noise of {rest}")
            if not ok0:
                viol("x0", f"initial point x0[{i}] is {x0[i]}, expected the noise of {rest} = {want}", l)
    part.record(Q("unsat" if (n_succ and n_fail) else "sat", None, 0.0, ""), f"{key_base}: both optimiser outcomes explored (success paths {n_succ}, failure paths {n_fail})")
    if not (n_succ and n_fail):
        part.harness_error(f"{key_base}: vacuity: success paths {n_succ}, failure paths {n_fail}")
    part.sample({"program": p.id, "paths": len(leaves), "flattening": [list(x) for x in pos], "optimizer_calls": calls["n"]})
    return part.d


def float_fit_outcome(p, xvals, Xrow):
    """Real fit with a concrete stub optimiser that evaluates the objective at xvals: returns the outcome's name."""
    import formak.python as fp
    from formak.exceptions import MinimizationFailure

    def stub(fun, x0, **kw):
        fun(list(xvals))
        return SimpleNamespace(success=True, x=list(x0), message="stub")

    saved = fp.minimize
    fp.minimize = stub
    try:
        with quiet():
            ad = float_adapter(p, {})
            try:
                ad.fit(np.array([list(Xrow)], dtype=float))
                return "fitted"
            except MinimizationFailure:
                return "MinimizationFailure"
            except Exception as ex:
                return f"{type(ex).__name__}: {str(ex)[:120]}"
    finally:
        fp.minimize = saved


def task_fit_objective_raises(p, tier, seed):
    """'fit either fails with MinimizationFailure or returns an estimator': may the library's own objective raise
    something else at a point an optimiser is entitled to try?  The stub evaluates the objective at an ARBITRARY x;
    the sensor-uncertainty validity gate is explored (1x1 matrices: eigenvalue == entry, exact contract)."""
    part = Part()
    part.program(p.id)
    part.fn("python.SklearnEKFAdapter.fit (objective evaluation)", "python.assert_valid_covariance", "python.SklearnEKFAdapter._inverse_flatten_scoring_params")
    import formak.python as fp
    from formak.exceptions import MinimizationFailure

    if any(len(p.sensors[k_]) != 1 for k_ in p.sensors):
        part.harness_error("task_fit_objective_raises needs single-reading sensors (exact 1x1 eigenvalue contract)")
        return part.d
    env = pyh.input_env(p)
    W = width(p)
    Xv = [z3.Real(f"X_0_{j}") for j in range(W)]
    pos = flat_positions(p)
    xs = [z3.Real(f"opt_x{i}") for i in range(len(pos))]
    assumes = [z3.And(v >= -2, v <= 2) for v in Xv] + [z3.And(v >= -4, v <= 4) for v in xs]
    key_base = f"{p.id}/fit-objective"

    def contract(c, Mx, vals):
        n_ = Mx.shape[0]
        if n_ == 1:
            c.assume(vals[0].t == lift(Mx[0, 0]))  # exact for a 1x1 matrix
        else:
            for i in range(n_):
                c.assume(vals[i].t >= 0)  # state covariance gates assumed (C09); cheap, so visible to the pruning solver

    def stub(fun, x0, **kw):
        fun([SymReal(v) for v in xs])
        return SimpleNamespace(success=True, x=list(x0), message="stub")

    def harness():
        with installed(extra=[(fp, "minimize", stub)]), quiet():
            ad = make_adapter(p, {}, {c: float(p.process_noise[c]) for c in p.control}, {k_: {r: float(p.sensor_noise[k_][r]) for r in p.sensors[k_]} for k_ in p.sensors}, None)
            Xo = np.empty((1, W), dtype=object)
            for j in range(W):
                Xo[0, j] = SymReal(Xv[j])
            try:
                ad.fit(Xo)
                return "fitted"
            except MinimizationFailure:
                return "MinimizationFailure"

    cfg = {"gate": "explore", "eig_contract": contract, "inverse": "closed", "any_gate": "assume-false", "assume_false_sites": [("transform", "< 0.0"), ("mahalanobis", "< 0.0")]}
    leaves = explore(harness, assumes=assumes, config=cfg, max_paths=256, prune_timeout_ms=8000)
    part.leaves(leaves)
    # raising leaves that are infeasible under the full assumption set (incl. the deferred definitions) are discarded
    bad = [l for l in leaves if l.status == "exc" and solve(l.assumes + l.pc, 20000).status != "unsat"]
    ok = [l for l in leaves if l.status == "ok"]
    found = False
    for l in bad:
        q = solve(l.assumes + l.pc + dyadic_box_simple(xs + Xv), 20000)
        if q.status != "sat":
            q = solve(l.assumes + l.pc, 20000)
        if q.status != "sat":
            continue
        xvals = [float(q.model.get(f"opt_x{i}", 0)) for i in range(len(xs))]
        row = [float(q.model.get(f"X_0_{j}", 0)) for j in range(W)]
        part.d["witnesses"] += 1
        out = float_fit_outcome(p, xvals, row)
        if out not in ("fitted", "MinimizationFailure"):
            path = write_replay(PID, {"key": f"{key_base}/raises", "info": {"program": p.id, "kind": "fit-objective"}, "inputs": {"x": xvals, "row": row}, "outcome": out})
            part.violation(f"{key_base}/raises", f"fit raises {out} (neither MinimizationFailure nor a fitted estimator) when the optimiser evaluates the objective at x={xvals} on data row {row}", path)
            found = True
            break
    part.record(Q("sat" if bad else "unsat", None, 0.0, ""), f"{key_base}: no feasible path on which the objective evaluation at an arbitrary x raises anything but MinimizationFailure ({len(leaves)} paths)")
    if bad and not found:
        part.d["inconclusive"].append(f"{key_base}: raising path(s) {bad[0]} feasible symbolically but not reproduced concretely")
    if not ok:
        part.harness_error(f"{key_base}: vacuity: no completing path")
    part.sample({"program": p.id, "paths": len(leaves), "raising_paths": len(bad)})
    return part.d


def dyadic_box_simple(vars_):
    cs = []
    for v in vars_:
        k_ = z3.Int("grid!" + v.decl().name())
        cs += [v == z3.ToReal(k_) / 8]
    return cs


def task_flatten_roundtrip(p, tier, seed):
    """flatten(inverse_flatten(x)) == x for x >= 1e-6 (all reals), and inverse_flatten(flatten()) keeps the noise."""
    part = Part()
    part.program(p.id)
    env = pyh.input_env(p)
    pn, sn = pyh.noise_env(p)
    pos = flat_positions(p)
    xs = [z3.Real(f"opt_x{i}") for i in range(len(pos))]
    assumes = [x >= qval(1e-6) for x in xs]
    tmo = tier_timeout_ms(tier)

    def harness():
        with installed(), quiet():
            ad = sym_adapter(p, env, pn, sn, k=None)
            params = ad._inverse_flatten_scoring_params([SymReal(v) for v in xs])
            ad.set_params(**params)
            return list(ad._flatten_scoring_params())

    leaves = explore(harness, assumes=assumes)
    part.leaves(leaves)
    for li, l in enumerate(leaves):
        if l.status != "ok":
            part.harness_error(f"{p.id}/flatten: {l}")
            continue
        out = l.value
        if len(out) != len(xs):
            path = write_replay(PID, {"key": f"{p.id}/flatten/length", "info": {"program": p.id, "kind": "flatten"}, "inputs": {}})
            part.violation(f"{p.id}/flatten/length", f"flatten returns {len(out)} values for {len(xs)} positions", path)
            continue
        for i in range(len(xs)):
            q = prove_valid(part, f"{p.id}/flatten(inverse_flatten(x))[{i}] == x[{i}] for x >= 1e-6 (path {li})", lift(out[i]) == xs[i], l.assumes + l.pc, tmo)
            if q.status == "sat":
                e = {k_: float(v) for k_, v in q.model.items() if not isinstance(v, bool)}
                path = write_replay(PID, {"key": f"{p.id}/flatten/roundtrip", "info": {"program": p.id, "kind": "flatten"}, "inputs": e})
                part.violation(f"{p.id}/flatten/roundtrip", f"flatten(inverse_flatten(x))[{i}] != x[{i}]", path)
                break
    return part.d


def float_fit_check(p, xvals, success=True, nondefault_config=False):
    """Concrete replay with a concrete stub optimiser."""
    import formak.python as fp
    from formak.exceptions import MinimizationFailure

    def stub(fun, x0, **kw):
        fun(list(xvals))
        return SimpleNamespace(success=success, x=list(xvals), message="stub")

    saved = fp.minimize
    fp.minimize = stub
    try:
        with quiet():
            ad = float_adapter(p, {})
            if nondefault_config:
                ad.set_params(config=fp.Config(common_subexpression_elimination=False, extra_validation=True, max_dt_sec=0.25, innovation_filtering=None))
            orig = dict(ad.get_params())
            orig_cfg = dataclasses.asdict(orig["config"])
            rng = random.Random(0)
            X = np.array([[rng.randint(-8, 8) / 8.0 for _ in range(width(p))]])
            try:
                ad.fit(X)
            except MinimizationFailure:
                return ["MinimizationFailure"] if success else []
            now = ad.get_params()
    finally:
        fp.minimize = saved
    probs = []
    st = p.symtab()
    for k_ in ("symbolic_model", "sensor_models", "calibration_map"):
        if now[k_] is not orig[k_]:
            probs.append(f"{k_} changed")
    if dataclasses.asdict(now["config"]) != orig_cfg:
        probs.append(f"config changed: {now['config']} was {orig_cfg}")
    pos = flat_positions(p)
    if set(now["process_noise"]) != {st[c] for c in p.control}:
        probs.append("process noise keys")
    if set(now["sensor_noises"]) != set(p.sensors):
        probs.append("sensor noise keys")
    for i, (kind, *rest) in enumerate(pos):
        try:
            if kind == "process":
                v = now["process_noise"][st[rest[0]]]
                if not approx_equal(float(v), max(1e-6, xvals[i])) or not float(v) > 0:
                    probs.append(f"process_noise[{rest[0]}]={v} expected max(1e-6,{xvals[i]})")
            else:
                v = now["sensor_noises"][rest[0]][rest[1]]
                if not approx_equal(float(v), xvals[i]):
                    probs.append(f"sensor_noises[{rest[0]}][{rest[1]}]={v} expected {xvals[i]}")
        except KeyError as ex:
            probs.append(f"missing {ex}")
    return probs


def float_fit_real(p, rows=3, seed=0):
    """fit with the REAL optimiser on a small matrix: returns (problems, exception text or None)."""
    import formak.python as fp
    from formak.exceptions import MinimizationFailure

    rng = random.Random(seed)
    with quiet():
        ad = float_adapter(p, {})
        orig = dict(ad.get_params())
        orig_cfg = dataclasses.asdict(orig["config"])
        X = np.array([[rng.randint(-8, 8) / 8.0 for _ in range(width(p))] for _ in range(rows)])
        try:
            ad.fit(X)
        except MinimizationFailure:
            return [], None
        except Exception as ex:
            return [f"fit raises {type(ex).__name__}: {ex}"], f"{type(ex).__name__}: {ex}"
        now = ad.get_params()
    probs = []
    st = p.symtab()
    for k_ in ("symbolic_model", "sensor_models", "calibration_map"):
        if now[k_] is not orig[k_]:
            probs.append(f"{k_} changed")
    if dataclasses.asdict(now["config"]) != orig_cfg:
        probs.append("config changed")
    if set(now["process_noise"]) != {st[c] for c in p.control}:
        probs.append("process noise keys")
    if set(now["sensor_noises"]) != set(p.sensors) or any(set(map(str, now["sensor_noises"][k_])) != set(p.sensors[k_]) for k_ in p.sensors if k_ in now["sensor_noises"]):
        probs.append("sensor noise keys")
    for c in p.control:
        v = float(now["process_noise"].get(st[c], float("nan")))
        if not (np.isfinite(v) and v > 0):
            probs.append(f"process_noise[{c}]={v} not finite positive")
    for k_ in p.sensors:
        for r, v in now["sensor_noises"].get(k_, {}).items():
            if not np.isfinite(float(v)):
                probs.append(f"sensor_noises[{k_}][{r}]={v} not finite")
    return probs, None


def task_fit_real(p, label, tier, seed):
    """The optimiser is outside the claim, but what fit does around it is not: with the real scipy optimiser, from a
    valid initial noise in an unusual regime (tiny / large), fit either raises MinimizationFailure or hands back the same
    model with finite positive noise under the same names."""
    part = Part()
    part.program(p.id)
    part.fn("python.SklearnEKFAdapter.fit")
    key = f"{p.id}/fit-real/{label}"
    probs, exc = float_fit_real(p, seed=seed)
    part.record(Q("sat" if probs else "unsat", None, 0.0, ""), f"{key}: fit with the real optimiser: MinimizationFailure or same model + finite positive noise under the same names (concrete)")
    if probs:
        path = write_replay(PID, {"key": key, "info": {"program": p.id, "kind": "fit-real", "label": label}, "inputs": {}, "problems": probs})
        part.violation(key, f"fit from {label} initial noise ({p.process_noise}, {p.sensor_noise}): {probs[0][:300]}", path)
    return part.d


def _dispatch(fn, args):
    return fn(*args)


def run(tier, seed):
    rep = Report(PID, tier, seed, "translation_validation")
    tasks = [(task_params_concrete, (CP.P3(), tier, seed)), (task_params, (CP.P3(), tier, seed)), (task_flatten_roundtrip, (CP.P3(), tier, seed))]
    if tier != "quick":
        tasks.append((task_flatten_roundtrip, (CP.P10(), tier, seed)))
    tasks.append((task_fit, (CP.P1(), tier, seed)))
    tasks.append((task_fit, (CP.P8(), tier, seed)))
    tasks.append((task_fit_objective_raises, (CP.P1(), tier, seed)))
    tasks.append((task_fit, (CP.P1(), tier, seed, True)))
    if tier != "quick":
        tasks += [(task_fit, (CP.P3(), tier, seed))]
        tasks += [(task_params, (CP.P1(), tier, seed)), (task_params, (CP.P10(), tier, seed)), (task_fit, (CP.P10(), tier, seed)), (task_flatten_roundtrip, (CP.P8(), tier, seed))]
    p1 = CP.P1()
    tiny = CP.with_noise(p1, process={c: 1e-10 for c in p1.control}, sensor={k_: {r: 1e-10 for r in rs} for k_, rs in p1.sensor_noise.items()}, pid="P1-xy-noise-1e-10")
    tasks.append((task_fit_real, (tiny, "tiny (1e-10)", tier, seed)))
    tasks.append((task_fit_real, (p1, "the program's", tier, seed)))
    if tier != "quick":
        big = CP.with_noise(p1, process={c: 1e4 for c in p1.control}, sensor={k_: {r: 1e4 for r in rs} for k_, rs in p1.sensor_noise.items()}, pid="P1-xy-noise-1e4")
        tasks.append((task_fit_real, (big, "large (1e4)", tier, seed)))
    for d in pmap(_dispatch, tasks):
        rep.merge(d)
    rep.bounds = {"programs": "P1 (1 control, 2 single-reading sensors), P3 (2 controls, sensors of 1 and 2 readings), P10/P8 in thorough", "optimiser": "scipy.optimize.minimize replaced by its contract: evaluates the objective, returns success in {True, False} and an arbitrary real vector", "training_matrix": "one symbolic row", "config": "explicit configuration (config=None is outside the property)"}
    rep.assumptions = ["what the real optimiser returns is outside the claim; that it is finite is its contract", "validity/sign gates assumed in the objective evaluation"]
    return finish(
        rep,
        explanation="get_params/set_params/clone on an estimator with symbolic noise and configuration values: term-identical round trips, one-field configuration updates, unknown names refused. fit with the optimiser replaced by a nondeterministic stub (success forked, x arbitrary reals): failure => MinimizationFailure; success => same model/sensor models/calibration/config objects, process noise keyed exactly by the controls with value max(1e-6, x_i) > 0 at the sorted position, sensor noise keyed exactly by the original sensors/readings with the x entry of the documented flattening order; flatten o inverse-flatten is the identity for x >= 1e-6.",
        rule="one obligation per (program, clause, path, parameter)",
        trusted_base=["z3 5.1", "engine/symreal", "optimiser contract stub"],
    )


def replay(path):
    with open(path) as f:
        r = json.load(f)
    info = r["info"]
    ps = {p.id: p for p in CP.catalogue()}
    if info.get("kind") == "params-concrete":
        d = task_params_concrete(ps[info["program"]], "quick", 0)
        print([v["what"] for v in d["violations"]])
        print("REPRODUCED" if d["violations"] else "not reproduced")
        return 1 if d["violations"] else 0
    if info.get("kind") == "fit-real":
        p1 = CP.P1()
        v = {"P1-xy-noise-1e-10": 1e-10, "P1-xy-noise-1e4": 1e4}.get(info["program"])
        q = p1 if v is None else CP.with_noise(p1, process={c: v for c in p1.control}, sensor={k_: {r_: v for r_ in rs} for k_, rs in p1.sensor_noise.items()}, pid=info["program"])
        probs, exc = float_fit_real(q, seed=int(r.get("seed", 0)))
        print(probs)
        print("REPRODUCED" if probs else "not reproduced")
        return 1 if probs else 0
    p = ps[info["program"]]
    if info["kind"] == "fit":
        pos = flat_positions(p)
        e = r.get("inputs", {})
        xvals = [e.get(f"opt_x{i}", 0.5 + 0.25 * i) for i in range(len(pos))]
        probs = float_fit_check(p, xvals, success=bool(e.get("opt_success", True)) if "opt_success" in e else True, nondefault_config=info.get("nondefault_config", False))
        print(probs)
        print("REPRODUCED" if probs else "not reproduced")
        return 1 if probs else 0
    if info["kind"] == "fit-objective":
        out = float_fit_outcome(p, r["inputs"]["x"], r["inputs"]["row"])
        print("outcome:", out)
        bad = out not in ("fitted", "MinimizationFailure")
        print("REPRODUCED" if bad else "not reproduced")
        return 1 if bad else 0
    if info["kind"] == "flatten":
        with quiet():
            ad = float_adapter(p, {})
            pos = flat_positions(p)
            xvals = [0.5 + 0.25 * i for i in range(len(pos))]
            ad.set_params(**ad._inverse_flatten_scoring_params(list(xvals)))
            out = list(ad._flatten_scoring_params())
        print(out, xvals)
        bad = len(out) != len(xvals) or any(not approx_equal(float(a), b) for a, b in zip(out, xvals))
        print("REPRODUCED" if bad else "not reproduced")
        return 1 if bad else 0
    print("params clause: re-run bin/check C17")
    return 1
