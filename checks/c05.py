"""C05 - sensor update is the Kalman correction for any number of readings (E1, inverse as shared cut-point)."""
from __future__ import annotations

import json
import math
import random

import numpy as np
import z3

from corpus import programs as CP
from engine.symreal import expr as X
from engine.symreal.core import SymReal, explore, lift
from engine.symreal.shim import installed
from engine.symreal.zutil import zeval

from . import pyh
from .common import Part, Q, Report, approx_equal, finish, pmap, quiet, tier_timeout_ms, write_replay
from .oblig import prove_equal, prove_valid, reach

PID = "C05"


def warm_keys(p, key):
    """Earlier updates on the same filter object: another sensor (if there is one), then the same sensor."""
    others = [k2 for k2 in p.s_sensors() if k2 != key]
    return (others[:1] + [key])


def float_update(p, cse, key, e, k=None, warm=True):
    def go():
        with quiet():
            pn, sn = pyh.noise_vals_from_env(p, e)
            ekf = pyh.build_ekf_float(p, e, cse=cse, pn=pn, sn=sn, k=k)
            if warm and k is None:
                # history dimension: an earlier update (other sensor, other inputs) on the same filter object
                for wi, wk in enumerate(warm_keys(p, key)):
                    st0 = ekf.State(**{s: float(e.get(f"{s}__w{wi}", 0.375 + 0.25 * wi)) for s in p.state})
                    cov0 = ekf.Covariance.from_data(pyh.float_cov(p.state, {f"P_{a}_{b}": e.get(f"Pw{wi}_{a}_{b}", 1.0 if a == b else 0.125) for a in p.s_state() for b in p.s_state()}))
                    rd0 = ekf.make_reading(wk, **{r: float(e.get(f"zw{wi}_{wk}_{r}", 0.625 - 0.5 * wi)) for r in p.sensors[wk]})
                    ekf.sensor_model(st0, cov0, sensor_key=wk, sensor_reading=rd0)
            st = ekf.State(**{s: float(e[s]) for s in p.state})
            cov = ekf.Covariance.from_data(pyh.float_cov(p.state, e))
            rd = ekf.make_reading(key, **{r: float(e[f"z_{key}_{r}"]) for r in p.sensors[key]})
            r = ekf.sensor_model(st, cov, sensor_key=key, sensor_reading=rd)
            # a second, different filter object with the same sensor keys is updated before the records are read back
            decoy = pyh.build_ekf_float(pyh.decoy_program(p), e, cse=cse, pn=pn, sn=sn, k=None)
            dst = decoy.State(**{s: float(e[s]) * 0.5 + 0.125 for s in p.state})
            dcov = decoy.Covariance()
            for k2 in p.s_sensors():
                decoy.sensor_model(dst, dcov, sensor_key=k2, sensor_reading=decoy.make_reading(k2, **{r2: 0.375 for r2 in p.sensors[k2]}))
            return {
                "state": np.array(r.state.data, dtype=float).reshape(-1),
                "cov": np.array(r.covariance.data, dtype=float),
                "S": np.array(ekf.sensor_prediction_uncertainty[key], dtype=float),
                "innov": np.array(ekf.innovations[key], dtype=float).reshape(-1),
            }

    return pyh.gate_guard(go)


def spec_float(p, key, e):
    ss, rs = p.s_state(), p.s_readings(key)
    x = np.array([e[s] for s in ss], dtype=float)
    h = np.array([X.evalf(p.sensors[key][r], e) for r in rs])
    H = np.array([[X.evalf(X.diff(p.sensors[key][r], c), e) for c in ss] for r in rs]).reshape(len(rs), len(ss))
    _, sn = pyh.noise_vals_from_env(p, e)
    Qm = np.diag([float(sn[key][r]) for r in rs])
    P = pyh.float_cov(p.state, e)
    z = np.array([e[f"z_{key}_{r}"] for r in rs], dtype=float)
    S = H @ P @ H.T + Qm
    K = P @ H.T @ np.linalg.inv(S)
    return {"state": x + K @ (z - h), "cov": P - K @ H @ P, "S": S, "innov": z - h}


def task(p, cse, key, k, tier, seed):
    part = Part()
    part.program(p.id)
    part.fn("python.ExtendedKalmanFilter.sensor_model", "python.ExtendedKalmanFilter.sensor_jacobian", "python.SensorModel.model", "python.ExtendedKalmanFilter.remove_innovation", "python.ExtendedKalmanFilter.make_reading", "common.named_vector", "common.named_covariance")
    env = pyh.input_env(p)
    pn, sn = pyh.noise_env(p)
    tmo = tier_timeout_ms(tier)
    ss, rs = p.s_state(), p.s_readings(key)
    n, m = len(ss), len(rs)
    zin = {r: z3.Real(f"z_{key}_{r}") for r in rs}
    hspec, aH0 = pyh.spec_sensor(p, key, env)
    H, aH = pyh.spec_jacobian(p, p.sensors[key], rs, ss, env)
    _, aU = pyh.spec_update(p, env)
    aO = []
    for k2 in p.sensors:
        aO += pyh.spec_sensor(p, k2, env)[1]
    assumes = aH0 + aH + aU + aO + pyh.noise_positive(pn, sn)
    Psym, Pvars = pyh.sym_cov(p.state)
    Pz = pyh.mat_z3(Psym)
    Qm = [[(sn[key][rs[i]] if i == j else z3.RealVal(0)) for j in range(m)] for i in range(m)]
    Sspec = pyh.zadd(pyh.zmatmul(H, pyh.zmatmul(Pz, pyh.ztranspose(H))), Qm)
    key_base = f"{p.id}/cse={int(cse)}/k={k}/{key}"
    allv = dict(env)
    allv.update({f"sn_{key}_{r}": sn[key][r] for r in rs})
    allv.update({f"z_{key}_{r}": zin[r] for r in rs})
    for (a, b), v in Pvars.items():
        allv[f"P_{a}_{b}"] = v

    def seeded_envs(rng, cnt):
        out = []
        for _ in range(cnt):
            e = {nm: rng.randint(-16, 16) / 8.0 for nm in env}
            e.update(pyh.seeded_cov_env(p.state, rng))
            for k2 in p.sensors:
                for r in p.sensors[k2]:
                    e[f"sn_{k2}_{r}"] = rng.choice([0.25, 0.5, 1.0, 2.0])
            for r in rs:
                # close to the prediction so that an enabled innovation filter accepts it
                e[f"z_{key}_{r}"] = round(X.evalf(p.sensors[key][r], e) + rng.randint(-2, 2) / 16.0, 6)
            out.append(e)
        return out

    conc = []
    for e in seeded_envs(random.Random(seed + 23), 2):
        try:
            got = float_update(p, cse, key, e, k)
        except pyh.GateRejected:
            continue
        except Exception as ex:
            path = write_replay(PID, {"key": key_base + "/concrete-exception", "info": {"program": p.id, "cse": cse, "sensor": key, "k": k}, "inputs": e, "exception": f"{type(ex).__name__}: {ex}"})
            part.violation(key_base + "/concrete-exception", f"sensor_model raises {type(ex).__name__}: {ex} on a valid input", path)
            return part.d
        conc.append((e, got))
        # concrete differential at the seeded point (also decides changes that leave the encodable fragment, e.g. a
        # call into LAPACK/scipy on the update path, where the symbolic run below can only report a harness error)
        sp = spec_float(p, key, e)
        badc = [nm for nm in ("state", "cov", "S", "innov") if np.shape(got[nm]) != np.shape(sp[nm]) or not np.allclose(got[nm], sp[nm], rtol=1e-6, atol=1e-8)]
        part.record(Q("sat" if badc else "unsat", None, 0.0, ""), f"{key_base}: real update == specification at a seeded point (concrete)")
        if badc:
            path = write_replay(PID, {"key": key_base + "/seeded-point", "info": {"program": p.id, "cse": cse, "sensor": key, "k": k}, "inputs": e})
            part.violation(key_base + "/seeded-point", f"sensor_model differs from the Kalman correction at the seeded point {e}: {badc} (e.g. {badc[0]}: got {np.round(got[badc[0]], 6).tolist()} expected {np.round(sp[badc[0]], 6).tolist()})", path)
            return part.d

    def harness():
        with installed(), quiet():
            ekf = pyh.build_ekf_sym(p, env, pn, sn, cse=cse, k=k)
            if k is None:
                # history dimension: an earlier update (other sensor, independent symbolic inputs) on the same object
                for wi, wk in enumerate(warm_keys(p, key)):
                    envw = pyh.second_env(env, suffix=f"__w{wi}", keep=p.calibration)
                    Pw, _ = pyh.sym_cov(p.state, prefix=f"Pw{wi}")
                    st0 = ekf.State(**pyh.sym_state_kwargs(p.state, envw))
                    cov0 = ekf.Covariance.from_data(Pw)
                    rd0 = ekf.make_reading(wk, **{r: SymReal(z3.Real(f"zw{wi}_{wk}_{r}")) for r in p.sensors[wk]})
                    ekf.sensor_model(st0, cov0, sensor_key=wk, sensor_reading=rd0)
            st = ekf.State(**pyh.sym_state_kwargs(p.state, env))
            cov = ekf.Covariance.from_data(Psym.copy())
            rd = ekf.make_reading(key, **{r: SymReal(zin[r]) for r in rs})
            r = ekf.sensor_model(st, cov, sensor_key=key, sensor_reading=rd)
            return r, ekf.sensor_prediction_uncertainty.get(key), ekf.innovations.get(key), st, cov

    leaves = explore(harness, assumes=assumes, config={"gate": "assume", "inverse": "cut"})
    part.leaves(leaves)
    bad = [l for l in leaves if l.status != "ok"]
    if bad:
        # the real code raised on a symbolic path: find a concrete input and replay
        l = bad[0]
        for e in seeded_envs(random.Random(seed), 4):
            try:
                float_update(p, cse, key, e, k)
            except pyh.GateRejected:
                continue
            except Exception as ex:
                path = write_replay(PID, {"key": key_base + "/raises", "info": {"program": p.id, "cse": cse, "sensor": key, "k": k}, "inputs": e, "exception": f"{type(ex).__name__}: {ex}"})
                part.violation(key_base + "/raises", f"sensor_model raises {type(l.value).__name__} on a feasible symbolic path and {type(ex).__name__} concretely", path)
                return part.d
        part.harness_error(f"{key_base}: symbolic path raised {l} but no concrete input reproduces it")
        return part.d
    # accept leaves = those where the returned state is not the input object
    acc = [l for l in leaves if l.value[0].state is not l.value[3]]
    if not acc:
        part.harness_error(f"{key_base}: no accept path among {len(leaves)} leaves")
        return part.d
    key_base0 = key_base
    for li, leaf in enumerate(acc):
        if len(acc) > 1:
            from .common import solve as _solve

            if _solve(leaf.assumes + leaf.pc, 5000).status == "unsat":
                continue
            key_base = f"{key_base0}/path{li}"
        r, S, innov, st, cov = leaf.value
        if not leaf.cuts:
            part.harness_error(f"{key_base}: no inverse cut on an accept path")
            continue
        cut = leaf.cuts[-1]
        Xc = pyh.mat_z3(cut["res"])
        path_assumes = assumes + leaf.pc
        reach(part, key_base + "/accept-path-sat", path_assumes + pyh.diag_dominant(p.state))
        wit = pyh.diag_dominant(p.state)

        # spec with the *shared* inverse symbols
        K = pyh.zmatmul(Pz, pyh.zmatmul(pyh.ztranspose(H), Xc))
        innov_spec = [zin[r] - hspec[r] for r in rs]
        xs = [env[s] + sum((K[i][j] * innov_spec[j] for j in range(m)), z3.RealVal(0)) for i, s in enumerate(ss)]
        KHP = pyh.zmatmul(K, pyh.zmatmul(H, Pz))
        Pspec = pyh.zsub(Pz, KHP)

        # replay helpers: the cut symbols are functions of the inputs, so candidates from the solver are re-evaluated end to end
        def mk_replay(what, i, j=None):
            def replay(e):
                sp = spec_float(p, key, e)
                if k is not None:
                    # these obligations are about the ACCEPT path of the innovation filter (their path condition mentions
                    # the inverse cut symbols, which a candidate cannot be filtered on): a candidate whose reading the
                    # specification itself discards is not a candidate for them
                    nis = float((sp["innov"].reshape(1, -1) @ np.linalg.inv(sp["S"]) @ sp["innov"].reshape(-1, 1)).item())
                    thr = float(k) * math.sqrt(2 * len(sp["innov"])) + len(sp["innov"])
                    if not nis < thr * (1 - 1e-9):
                        return None
                got = float_update(p, cse, key, e, k)
                if j is None:
                    return {"impl": float(got[what][i]), "spec": float(sp[what][i])}
                return {"impl": float(got[what][i, j]), "spec": float(sp[what][i, j])}

            return replay

        info = {"program": p.id, "cse": cse, "sensor": key, "k": k}
        if S is None or innov is None:
            part.harness_error(f"{key_base}: S / innovation not recorded")
            return part.d
        if tuple(np.shape(S)) != (m, m) or tuple(np.shape(innov)) != (m, 1):
            e = seeded_envs(random.Random(seed), 1)[0]
            path = write_replay(PID, {"key": key_base + "/S-shape", "info": info, "inputs": e, "shapes": [list(np.shape(S)), list(np.shape(innov))]})
            part.violation(key_base + "/S-shape", f"recorded S / innovation have shapes {np.shape(S)} / {np.shape(innov)}, expected {(m, m)} / {(m, 1)}", path)
            return part.d
        for i in range(m):
            for j in range(m):
                prove_equal(part, PID, f"{key_base}/S[{rs[i]},{rs[j]}]==HPH'+Q", lift(S[i, j]), Sspec[i][j], path_assumes, tmo, replay=mk_replay("S", i, j), key=f"{key_base}/S[{rs[i]},{rs[j]}]", info=info, all_vars=allv, witness_constraints=wit, seeded_envs=seeded_envs)
                # the argument of the inverse is that S
                prove_equal(part, PID, f"{key_base}/inverse-arg[{i},{j}]==S", lift(cut["arg"][i, j]), Sspec[i][j], path_assumes, tmo, replay=mk_replay("S", i, j), key=f"{key_base}/S[{rs[i]},{rs[j]}]", info=info, all_vars=allv, witness_constraints=wit, seeded_envs=seeded_envs)
            prove_equal(part, PID, f"{key_base}/innovation[{rs[i]}]==z-h", lift(innov[i, 0]), innov_spec[i], path_assumes, tmo, replay=mk_replay("innov", i), key=f"{key_base}/innov[{rs[i]}]", info=info, all_vars=allv, witness_constraints=wit, seeded_envs=seeded_envs)
        for i, s in enumerate(ss):
            prove_equal(part, PID, f"{key_base}/state[{s}]==x+K(z-h)", lift(r.state.data[i, 0]), xs[i], path_assumes, tmo, replay=mk_replay("state", i), key=f"{key_base}/state[{s}]", info=info, all_vars=allv, witness_constraints=wit, seeded_envs=seeded_envs)
            for j in range(n):
                prove_equal(part, PID, f"{key_base}/cov[{ss[i]},{ss[j]}]==P-KHP", lift(r.covariance.data[i, j]), Pspec[i][j], path_assumes, tmo, replay=mk_replay("cov", i, j), key=f"{key_base}/cov[{ss[i]},{ss[j]}]", info=info, all_vars=allv, witness_constraints=wit, seeded_envs=seeded_envs)

        # consequences on the implementation terms
        eqz = [zin[r] == hspec[r] for r in rs]
        for i, s in enumerate(ss):
            prove_valid(part, f"{key_base}/z==h(x) => state[{s}] unchanged", lift(r.state.data[i, 0]) == env[s], path_assumes + eqz, tmo)
        symX = [Xc[i][j] == Xc[j][i] for i in range(m) for j in range(i + 1, m)]
        for i in range(n):
            for j in range(i + 1, n):
                prove_valid(part, f"{key_base}/posterior symmetric [{i},{j}] (S^-1 symmetric)", lift(r.covariance.data[i, j]) == lift(r.covariance.data[j, i]), path_assumes + symX, tmo)

    key_base = key_base0
    for e, got in conc:
        sp = spec_float(p, key, e)
        for nm in ("state", "cov", "S", "innov"):
            if not np.allclose(got[nm], sp[nm], rtol=1e-6, atol=1e-8):
                path = write_replay(PID, {"key": key_base + f"/concrete-{nm}", "info": info, "inputs": e, "got": got[nm], "want": sp[nm]})
                part.violation(key_base + f"/concrete-{nm}", f"sensor_model {nm} differs from the Kalman correction at a seeded point", path)
    part.sample({"program": p.id, "sensor": key, "m": m, "n": n, "k": k, "S[0][0]": str(z3.simplify(lift(S[0, 0])))[:200]})
    return part.d


def task_shrink(p, key, tier, seed):
    """'never exceeds the prior': v^T (P - P') v >= 0 with P = L L^T, closed-form inverse, m = 1."""
    part = Part()
    part.program(p.id)
    env = pyh.input_env(p)
    pn, sn = pyh.noise_env(p)
    ss, rs = p.s_state(), p.s_readings(key)
    n, m = len(ss), len(rs)
    assert m == 1
    zin = {r: z3.Real(f"z_{key}_{r}") for r in rs}
    aO = []
    for k2 in p.sensors:
        aO += pyh.spec_sensor(p, k2, env)[1]
    H, aH = pyh.spec_jacobian(p, p.sensors[key], rs, ss, env)
    assumes = aO + aH + pyh.noise_positive(pn, sn)
    L = [[(z3.Real(f"L_{i}{j}") if j <= i else z3.RealVal(0)) for j in range(n)] for i in range(n)]
    Pz = pyh.zmatmul(L, pyh.ztranspose(L))
    Psym = np.empty((n, n), dtype=object)
    for i in range(n):
        for j in range(n):
            Psym[i, j] = SymReal(Pz[i][j])

    def harness():
        with installed(), quiet():
            ekf = pyh.build_ekf_sym(p, env, pn, sn, cse=True, k=None)
            st = ekf.State(**pyh.sym_state_kwargs(p.state, env))
            cov = ekf.Covariance.from_data(Psym.copy())
            rd = ekf.make_reading(key, **{r: SymReal(zin[r]) for r in rs})
            return ekf.sensor_model(st, cov, sensor_key=key, sensor_reading=rd)

    leaves = explore(harness, assumes=assumes, config={"gate": "assume", "inverse": "closed"})
    part.leaves(leaves)
    if len(leaves) != 1 or leaves[0].status != "ok":
        part.harness_error(f"{p.id}/{key}/shrink: {leaves}")
        return part.d
    r = leaves[0].value
    v = [z3.Real(f"v_{i}") for i in range(n)]
    quad = z3.RealVal(0)
    for i in range(n):
        for j in range(n):
            quad = quad + v[i] * (Pz[i][j] - lift(r.covariance.data[i, j])) * v[j]
    # jacobian entries abstracted: they are arbitrary reals anyway; keep the real terms
    prove_valid(part, f"{p.id}/{key}/posterior<=prior: v'(P-P')v>=0 (m=1, n={n}, closed-form inverse)", quad >= 0, assumes, 60000 if tier == "thorough" else 20000)
    return part.d


def spec_float_mag(p, key, e):
    """Magnitude bounds of the specification's operands (see expr.evalmag)."""
    ss, rs = p.s_state(), p.s_readings(key)
    x = np.abs(np.array([e[s] for s in ss], dtype=float))
    hm = np.array([X.evalmag(p.sensors[key][r], e) for r in rs])
    Hm = np.array([[X.evalmag(X.diff(p.sensors[key][r], c), e) for c in ss] for r in rs]).reshape(len(rs), len(ss))
    H = np.array([[X.evalf(X.diff(p.sensors[key][r], c), e) for c in ss] for r in rs]).reshape(len(rs), len(ss))
    _, sn = pyh.noise_vals_from_env(p, e)
    Qm = np.diag([abs(float(sn[key][r])) for r in rs])
    P = pyh.float_cov(p.state, e)
    Pa = np.abs(P)
    zm = np.abs(np.array([e[f"z_{key}_{r}"] for r in rs], dtype=float))
    Sm = Hm @ Pa @ Hm.T + Qm
    S = H @ P @ H.T + np.diag([float(sn[key][r]) for r in rs])
    Km = Pa @ Hm.T @ np.abs(np.linalg.inv(S))
    im = zm + hm
    return {"state": x + Km @ im, "cov": Pa + Km @ Hm @ Pa, "S": Sm, "innov": im}


def task_regimes(p, cse, key, tier, seed):
    """Concrete replays in value regimes (tiny covariance / noise, tiny states, huge states): see pyh.regime_envs."""
    part = Part()
    part.program(p.id)
    part.fn("python.ExtendedKalmanFilter.sensor_model")
    rng = random.Random(seed + 911)
    for rnd in range(1 if tier == "quick" else 3):
        for label, e in pyh.regime_envs(p, rng, readings_for=key):
            kb = f"{p.id}/cse={int(cse)}/{key}/regime={label}"
            info = {"program": p.id, "cse": cse, "sensor": key, "k": None, "kind": "regime", "regime": label}
            try:
                sp = spec_float(p, key, e)
                mg = spec_float_mag(p, key, e)
            except (ZeroDivisionError, ValueError, OverflowError, np.linalg.LinAlgError):
                continue
            if not all(np.all(np.isfinite(sp[nm])) and np.all(np.isfinite(mg[nm])) for nm in sp):
                continue
            if np.linalg.cond(sp["S"]) > 1e6:
                continue  # the regimes are about scale, not conditioning: an ill-conditioned S is outside the replayed claim
            try:
                got = float_update(p, cse, key, e, None, warm=False)
            except pyh.GateRejected:
                continue
            except Exception as ex:
                path = write_replay(PID, {"key": kb, "info": info, "inputs": e, "exception": f"{type(ex).__name__}: {ex}"})
                part.violation(kb, f"sensor_model raises {type(ex).__name__}: {ex} on a valid input in the {label} regime ({e})", path)
                part.record(Q("sat", None, 0.0, ""), f"{kb}: update == specification relative to operand magnitude (concrete replay)")
                continue
            badc = [nm for nm in ("state", "cov", "S", "innov") if not pyh.mag_close(got[nm], sp[nm], mg[nm], rel=1e-8)]
            part.record(Q("sat" if badc else "unsat", None, 0.0, ""), f"{kb}: update == specification relative to operand magnitude (concrete replay)")
            if badc:
                path = write_replay(PID, {"key": kb, "info": info, "inputs": e})
                part.violation(kb, f"sensor_model differs from the Kalman correction in the {label} regime at {e}: {badc} (e.g. {badc[0]}: got {np.asarray(got[badc[0]]).tolist()} expected {np.asarray(sp[badc[0]]).tolist()})", path)
    return part.d


def programs_for(tier, seed):
    if tier == "quick":
        return [CP.P1(), CP.P3(), CP.P8(), CP.P12(), CP.P17(), CP.P22(), CP.P3().restrict(calibration=False)]
    ps = CP.all_fixed() + [CP.P22()] + CP.presence_variants(CP.P3())[1:] + CP.presence_variants(CP.P10())[1:]
    ps += [CP.random_program(seed, i) for i in range(10)]
    return ps


def run(tier, seed):
    rep = Report(PID, tier, seed, "translation_validation")
    ps = programs_for(tier, seed)
    tasks = []
    for p in ps:
        for key in p.sensors:
            if tier == "quick":
                tasks.append((task, (p, True, key, None, tier, seed)))
                if p.id.startswith("P3-nl3") and "nocal" not in p.id:
                    tasks.append((task, (p, False, key, 4.0, tier, seed)))
            else:
                for cse in (True, False):
                    for k in (None, 4.0):
                        tasks.append((task, (p, cse, key, k, tier, seed)))
    for p in [CP.P1(), CP.P3()]:
        for key in p.sensors:
            if len(p.sensors[key]) == 1:
                tasks.append((task_shrink, (p, key, tier, seed)))
    for p in ps:
        for key in p.sensors:
            tasks.append((task_regimes, (p, True, key, tier, seed)))
    from .common import pmap_staged

    first = [t for t in tasks if t[0] is task_regimes]
    for d in pmap_staged(_dispatch, first, [t for t in tasks if t[0] is not task_regimes]):
        rep.merge(d)
    rep.bounds = {"programs": [p.id for p in ps], "readings_per_sensor": "1..3", "inputs": "all real states/readings/calibration, all symmetric P (witnesses: diagonally dominant P), all noise > 0; accept path of the innovation filter when k is set", "inverse": "shared cut-point: fresh symbols for S^-1, argument proved equal to S", "posterior<=prior": "direct nlsat proof for m = 1 sensors only; m >= 2 via the guided chain in C09"}
    rep.assumptions = ["reals for doubles", "validity gates assumed to pass", "np.linalg.inv is a function of its argument (cut-point)"]
    return finish(
        rep,
        explanation="sensor_model of the real filter on symbolic inputs: recorded S == H P H^T + diag(noise by name), recorded innovation == z - h(x), inverse argument == S, returned state == x + K(z-h), covariance == P - K H P with K = P H^T S^-1 over shared inverse symbols; plus z == h(x) => state unchanged, posterior symmetric, posterior <= prior (m = 1).",
        rule="one obligation per (program, sensor, CSE, k, output entry)",
        trusted_base=["z3 5.1", "engine/symreal", "harness differentiator", "inverse cut-point"],
    )


def _dispatch(fn, args):
    return fn(*args)


def replay(path):
    with open(path) as f:
        r = json.load(f)
    info = r["info"]
    ps = {p.id: p for p in programs_for("thorough", int(r.get("seed", 0)))}
    p = ps[info["program"]]
    e = r["inputs"]
    key = info["sensor"]
    if info.get("kind") == "regime":
        try:
            got = float_update(p, info["cse"], key, e, None, warm=False)
        except pyh.GateRejected as ex:
            print("candidate rejected by validity gate:", ex)
            return 0
        except Exception as ex:
            print(f"REPRODUCED: raises {type(ex).__name__}: {ex}")
            return 1
        sp, mg = spec_float(p, key, e), spec_float_mag(p, key, e)
        badc = [nm for nm in ("state", "cov", "S", "innov") if not pyh.mag_close(got[nm], sp[nm], mg[nm], rel=1e-8)]
        print("REPRODUCED" if badc else "not reproduced", badc)
        return 1 if badc else 0
    try:
        got = float_update(p, info["cse"], key, e, info.get("k"))
    except pyh.GateRejected as ex:
        print("candidate rejected by validity gate:", ex)
        return 0
    except Exception as ex:
        print(f"REPRODUCED: raises {type(ex).__name__}: {ex}")
        return 1
    sp = spec_float(p, key, e)
    bad = 0
    for nm in ("state", "cov", "S", "innov"):
        if np.shape(got[nm]) != np.shape(sp[nm]) or not np.allclose(got[nm], sp[nm], rtol=1e-6, atol=1e-8):
            print(f"REPRODUCED: {nm}: got {got[nm].tolist()} expected {sp[nm].tolist()}")
            bad = 1
    if not bad:
        print("not reproduced")
    return bad
