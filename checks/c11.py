"""C11 - tick = fold readings in order, hold at the last reading, report at the output time (E1 + E2)."""
from __future__ import annotations

import itertools
import json
import math
import random
from types import SimpleNamespace

import z3

from engine.symreal.core import PathAbort, SymReal, ctx, decide, explore, lift, qval
from engine.symreal.shim import math_names_installed

from .common import Part, Q, Report, dyadic_box, finish, pmap, solve, tier_timeout_ms, write_replay
from .oblig import env_from_model

PID = "C11"
MAX_DT = 0.125

R = z3.RealSort()
FpS = z3.Function("FpS", R, R, R, R, R)  # (state, cov, dt, control) -> state
FpP = z3.Function("FpP", R, R, R, R, R)
FsS = z3.Function("FsS", R, R, R, R, R)  # (state, cov, sensor id, reading) -> state
FsP = z3.Function("FsP", R, R, R, R, R)
SENSOR_ID = {"a": 1, "b": 2}


def _SC(state, covariance):
    """The stand-ins return what the real filter returns: python.StateAndCovariance (a namedtuple)."""
    from formak import python

    return python.StateAndCovariance(state, covariance)


class UFFilter:
    """Stand-in filter whose operations are uninterpreted functions: the returned term *is* the call trace."""

    def __init__(self, max_dt, control_size, reject=False):
        self.config = SimpleNamespace(max_dt_sec=max_dt)
        self.control_size = control_size
        self.calls = 0
        self.reject = reject
        self.n_updates = 0

    def process_model(self, dt, state, covariance, control=None):
        self.calls += 1
        c = lift(control) if control is not None else z3.RealVal(0)
        d = lift(dt)
        return _SC(FpS(state, covariance, d, c), FpP(state, covariance, d, c))

    def sensor_model(self, state, covariance, *, sensor_key, sensor_reading):
        self.calls += 1
        i = self.n_updates
        self.n_updates += 1
        if self.reject and decide(z3.Bool(f"reject{i}")):
            return _SC(state, covariance)  # a discarded reading: the very same objects come back (as in the real filter)
        sid = z3.RealVal(SENSOR_ID[sensor_key])
        return _SC(FsS(state, covariance, sid, sensor_reading), FsP(state, covariance, sid, sensor_reading))

    def make_reading(self, key, **kw):
        (v,) = kw.values()
        return lift(v)


def ref_propagate(t, s, P, target, max_dt, control):
    """Reference propagation written from the statement of C10/C11 (runs in the same path context)."""
    c = lift(control) if control is not None else z3.RealVal(0)
    delta = SymReal(target - t)
    if delta == 0:
        return s, P
    step = max_dt if delta > 0 else -max_dt
    n = math.floor(delta / step)
    n = n.__index__() if hasattr(n, "__index__") else int(n)
    for _ in range(n):
        s, P = FpS(s, P, qval(step), c), FpP(s, P, qval(step), c)
    rem = delta - n * step
    if abs(rem) >= 1e-9:
        s, P = FpS(s, P, lift(rem), c), FpP(s, P, lift(rem), c)
    return s, P


def ref_tick(held, readings, out, max_dt, control, reject_from=None):
    t, s, P = held
    for j, (ts, key, val) in enumerate(readings):
        s, P = ref_propagate(t, s, P, ts, max_dt, control)
        sid = z3.RealVal(SENSOR_ID[key])
        if reject_from is not None and decide(z3.Bool(f"reject{reject_from + j}")):
            pass  # discarded reading: estimate unchanged, but it is still held at the reading's timestamp
        else:
            s, P = FsS(s, P, sid, val), FsP(s, P, sid, val)
        t = ts
    rs, rP = ref_propagate(t, s, P, out, max_dt, control)
    return (rs, rP), (t, s, P)


# ---- concrete tracing twin (replay)


class TraceFilter:
    def __init__(self, max_dt, control_size):
        self.config = SimpleNamespace(max_dt_sec=max_dt)
        self.control_size = control_size

    def process_model(self, dt, state, covariance, control=None):
        return _SC(state + (("P", float(dt)),), covariance + (("P", float(dt)),))

    def sensor_model(self, state, covariance, *, sensor_key, sensor_reading):
        return _SC(state + (("S", sensor_key, sensor_reading),), covariance + (("S", sensor_key, sensor_reading),))

    def make_reading(self, key, **kw):
        (v,) = kw.values()
        return float(v)


def float_ref_propagate(t, trace, target, max_dt):
    delta = target - t
    if delta == 0:
        return trace
    step = max_dt if delta > 0 else -max_dt
    n = int(math.floor(delta / step))
    for _ in range(n):
        trace = trace + (("P", step),)
    rem = delta - n * step
    if abs(rem) >= 1e-9:
        trace = trace + (("P", rem),)
    return trace


def float_run(e, keys, with_control):
    """Real tick on floats with a tracing filter; returns (returned trace, held (t, trace)) and the reference."""
    from formak import runtime

    f = TraceFilter(MAX_DT, 1 if with_control else 0)
    mf = runtime.ManagedFilter(f, float(e["t0"]), (), ())
    rds = [runtime.StampedReading(float(e[f"ts{i}"]), k, v=float(e[f"v{i}"])) for i, k in enumerate(keys)]
    res = mf.tick(float(e["out"]), control=(0.5 if with_control else None), readings=rds)
    got = (res.state, (mf.current_time, mf.state))
    t, tr = float(e["t0"]), ()
    for i, k in enumerate(keys):
        tr = float_ref_propagate(t, tr, float(e[f"ts{i}"]), MAX_DT)
        tr = tr + (("S", k, float(e[f"v{i}"])),)
        t = float(e[f"ts{i}"])
    want = (float_ref_propagate(t, tr, float(e["out"]), MAX_DT), (t, tr))
    return got, want


def traces_differ(a, b):
    if len(a) != len(b):
        return True
    for x, y in zip(a, b):
        if x[0] != y[0]:
            return True
        if x[0] == "P" and abs(x[1] - y[1]) > 1e-7:
            return True
        if x[0] == "S" and (x[1] != y[1] or abs(x[2] - y[2]) > 1e-12):
            return True
    return False


def float_differs(got, want):
    (gr, (gt, gtr)), (wr, (wt, wtr)) = got, want
    return traces_differ(gr, wr) or traces_differ(gtr, wtr) or abs(gt - wt) > 1e-12


def py_task(keys, K, with_control, tier, seed):
    part = Part()
    part.program("runtime.ManagedFilter")
    part.fn("runtime.ManagedFilter.tick", "runtime.ManagedFilter._process_model", "runtime.StampedReading")
    from formak import runtime

    r = len(keys)
    t0, out = z3.Real("t0"), z3.Real("out")
    ts = [z3.Real(f"ts{i}") for i in range(r)]
    vals = [z3.Real(f"v{i}") for i in range(r)]
    s0, P0 = z3.Real("s0"), z3.Real("P0")
    u = z3.Real("u")
    allt = [t0, out] + ts
    assumes = [z3.And(t >= -100, t <= 100) for t in allt]
    key_base = f"py/readings={''.join(keys) or '-'}/K={K}/control={int(with_control)}"
    control = SymReal(u) if with_control else None

    def harness():
      with math_names_installed(runtime):
        f = UFFilter(MAX_DT, 1 if with_control else 0)
        mf = runtime.ManagedFilter(f, SymReal(t0), s0, P0)
        rds = [runtime.StampedReading(SymReal(ts[i]), keys[i], v=SymReal(vals[i])) for i in range(r)]
        res = mf.tick(SymReal(out), control=control, readings=rds)
        held = (lift(mf.current_time), mf.state, mf.covariance)
        # reference fold in the same path context (decisions are forced by the path condition)
        ref, ref_held = ref_tick((t0, s0, P0), [(ts[i], keys[i], vals[i]) for i in range(r)], out, MAX_DT, control)
        return res, held, ref, ref_held

    leaves = explore(harness, assumes=assumes, kmax=K, max_paths=60000, prune_timeout_ms=2000)
    part.leaves(leaves)
    tmo = tier_timeout_ms(tier)
    exc = [l for l in leaves if l.status == "exc"]
    if exc:
        part.harness_error(f"{key_base}: tick raised on a symbolic path: {exc[0]}")
        return part.d
    ok = [l for l in leaves if l.status == "ok"]
    reported = False
    n_unsat = 0
    for li, l in enumerate(ok):
        res, held, ref, ref_held = l.value
        pc = assumes + l.pc
        claims = [
            ("returned state == reference fold", res.state, ref[0]),
            ("returned covariance == reference fold", res.covariance, ref[1]),
            ("held time == timestamp of the last reading (or unchanged)", held[0], ref_held[0]),
            ("held state == post-update estimate of the last reading (or unchanged)", held[1], ref_held[1]),
            ("held covariance == post-update covariance of the last reading (or unchanged)", held[2], ref_held[2]),
        ]
        for nm, a, b in claims:
            if a.eq(b):
                q = Q("unsat", None, 0.0, "")
            else:
                q = solve(pc + [a != b], tmo)
            # aggregate obligations per clause to keep the evidence small
            part.d["queries"][q.status] += 1
            part.d["solver_s"] += q.secs
            if q.status == "unsat":
                n_unsat += 1
            elif q.status == "unknown":
                part.d["inconclusive"].append(f"{key_base}/leaf{li}: {nm}")
            elif not reported:
                vars_ = {v.decl().name(): v for v in allt + vals}
                cands = []
                q2 = solve(pc + [a != b] + dyadic_box(vars_, -4, 4, 64), 10000)
                if q2.status == "sat":
                    cands.append(env_from_model(q2.model, vars_))
                cands.append(env_from_model(q.model, vars_))
                for e in cands:
                    part.d["witnesses"] += 1
                    try:
                        got, want = float_run(e, keys, with_control)
                        differs = float_differs(got, want)
                    except Exception as ex:
                        got, want, differs = f"{type(ex).__name__}: {ex}", None, True
                    if differs:
                        key = f"py/tick/readings={len(keys)}"
                        path = write_replay(PID, {"key": key, "info": {"kind": "py", "keys": list(keys), "with_control": with_control}, "inputs": e, "got": got, "want": want, "clause": nm})
                        part.violation(key, f"Python tick differs from the fold of readings ({nm}) at {e}", path)
                        reported = True
                        break
                else:
                    part.d["inconclusive"].append(f"{key_base}/leaf{li}: {nm} sat, not reproduced in floats")
    part.d["obligations"].append({"name": f"{key_base}: 5 clauses x {len(ok)} leaves", "status": "unsat" if n_unsat == 5 * len(ok) else "mixed", "s": 0})
    if r == 0 and ok:
        # a tick without readings leaves the held triple term-identical
        same = all(l.value[1][0].eq(t0) and l.value[1][1].eq(s0) and l.value[1][2].eq(P0) for l in ok)
        part.record(Q("unsat" if same else "sat", None, 0.0, ""), f"{key_base}: tick without readings leaves the held (time, state, covariance) term-identical")
        if not same:
            e = {"t0": 0.0, "out": 0.3}
            path = write_replay(PID, {"key": "py/tick/no-readings-holds", "info": {"kind": "py", "keys": [], "with_control": with_control}, "inputs": e})
            part.violation("py/tick/no-readings-holds", "a tick without readings changed the held estimate", path)
    if not ok:
        part.harness_error(f"{key_base}: no complete leaf")
    # vacuity: reading before held time, after output time, and between, all reachable
    if r >= 1:
        for nm, cond in (("reading before held time", ts[0] < t0), ("reading after output time", ts[0] > out), ("output before held time", out < t0)):
            if not any(solve(assumes + l.pc + [cond], 3000).status == "sat" for l in ok[:400]):
                part.harness_error(f"{key_base}: vacuity: no leaf with {nm}")
    part.sample({"impl": "python", "readings": list(keys), "K": K, "leaves": len(ok), "cut": len(leaves) - len(ok), "returned": str(ok[0].value[0].state)[:200] if ok else None})
    return part.d


def py_task_sequence(ticks, K, with_control, tier, seed, reject=False):
    """A sequence of ticks on ONE managed filter (history dimension): every tick's return value and the held triple
    after it equal the reference fold started from the held triple after the previous tick. ticks: tuple of key tuples."""
    part = Part()
    part.program("runtime.ManagedFilter")
    part.fn("runtime.ManagedFilter.tick", "runtime.ManagedFilter._process_model")
    from formak import runtime

    t0 = z3.Real("t0")
    s0, P0 = z3.Real("s0"), z3.Real("P0")
    outs = [z3.Real(f"out_{j}") for j in range(len(ticks))]
    us = [z3.Real(f"u_{j}") for j in range(len(ticks))]
    tss = [[z3.Real(f"ts_{j}_{i}") for i in range(len(keys))] for j, keys in enumerate(ticks)]
    vss = [[z3.Real(f"v_{j}_{i}") for i in range(len(keys))] for j, keys in enumerate(ticks)]
    allt = [t0] + outs + [t for row in tss for t in row]
    assumes = [z3.And(t >= -100, t <= 100) for t in allt]
    label = "|".join("".join(k_) or "-" for k_ in ticks)
    key_base = f"py/sequence={label}/K={K}/control={int(with_control)}/reject={int(reject)}"

    def harness():
        with math_names_installed(runtime):
            f = UFFilter(MAX_DT, 1 if with_control else 0, reject=reject)
            mf = runtime.ManagedFilter(f, SymReal(t0), s0, P0)
            held_ref = (t0, s0, P0)
            results = []
            nupd = 0
            for j, keys in enumerate(ticks):
                control = SymReal(us[j]) if with_control else None
                rds = [runtime.StampedReading(SymReal(tss[j][i]), keys[i], v=SymReal(vss[j][i])) for i in range(len(keys))]
                res = mf.tick(SymReal(outs[j]), control=control, readings=rds if keys else None)
                held = (lift(mf.current_time), mf.state, mf.covariance)
                ref, held_ref = ref_tick(held_ref, [(tss[j][i], keys[i], vss[j][i]) for i in range(len(keys))], outs[j], MAX_DT, control, reject_from=(nupd if reject else None))
                nupd += len(keys)
                results.append((res, held, ref, held_ref))
            return results

    leaves = explore(harness, assumes=assumes, kmax=K, max_paths=60000, prune_timeout_ms=2000)
    part.leaves(leaves)
    tmo = tier_timeout_ms(tier)
    exc = [l for l in leaves if l.status == "exc"]
    if exc:
        # the real code raised on a feasible symbolic path
        q = solve(assumes + exc[0].pc, 5000)
        allvars = {v.decl().name(): v for v in allt + [x for row in vss for x in row] + us}
        e = env_from_model(q.model, allvars) if q.status == "sat" else {n_: 0.0 for n_ in allvars}
        rejects = [bool((q.model or {}).get(f"reject{i}", False)) for i in range(sum(len(k_) for k_ in ticks))]
        try:
            float_sequence_differs(e, ticks, with_control, rejects if reject else None)
            part.harness_error(f"{key_base}: symbolic path raised {exc[0]} but the concrete run does not")
        except Exception as ex:
            path = write_replay(PID, {"key": "py/tick/raises", "info": {"kind": "py-seq", "ticks": [list(k_) for k_ in ticks], "with_control": with_control, "rejects": rejects if reject else None}, "inputs": e, "exception": f"{type(ex).__name__}: {ex}"})
            part.violation("py/tick/raises", f"tick raises {type(ex).__name__}: {str(ex)[:120]} for the sequence {label} at {e}", path)
        return part.d
    ok = [l for l in leaves if l.status == "ok"]
    reported = False
    n_unsat = n_tot = 0
    for li, l in enumerate(ok):
        pc = assumes + l.pc
        for j, (res, held, ref, ref_held) in enumerate(l.value):
            claims = [(f"tick{j} returned state", res.state, ref[0]), (f"tick{j} returned covariance", res.covariance, ref[1]), (f"tick{j} held time", held[0], ref_held[0]), (f"tick{j} held state", held[1], ref_held[1]), (f"tick{j} held covariance", held[2], ref_held[2])]
            for nm, a, b in claims:
                n_tot += 1
                q = Q("unsat", None, 0.0, "") if a.eq(b) else solve(pc + [a != b], tmo)
                part.d["queries"][q.status] += 1
                part.d["solver_s"] += q.secs
                if q.status == "unsat":
                    n_unsat += 1
                elif q.status == "unknown":
                    part.d["inconclusive"].append(f"{key_base}/leaf{li}: {nm}")
                elif not reported:
                    vars_ = {v.decl().name(): v for v in allt + [x for row in vss for x in row] + us}
                    cands = []
                    q2 = solve(pc + [a != b] + dyadic_box(vars_, -4, 4, 64), 10000)
                    if q2.status == "sat":
                        cands.append(env_from_model(q2.model, vars_))
                    cands.append(env_from_model(q.model, vars_))
                    rejects = [bool(q.model.get(f"reject{i}", False)) for i in range(sum(len(k_) for k_ in ticks))]
                    for e in cands:
                        part.d["witnesses"] += 1
                        try:
                            differs, got, want = float_sequence_differs(e, ticks, with_control, rejects if reject else None)
                        except Exception as ex:
                            differs, got, want = True, f"{type(ex).__name__}: {ex}", None
                        if differs:
                            key = f"py/tick-sequence/{label}"
                            path = write_replay(PID, {"key": key, "info": {"kind": "py-seq", "ticks": [list(k_) for k_ in ticks], "with_control": with_control, "rejects": rejects if reject else None}, "inputs": e, "got": got, "want": want, "clause": nm})
                            part.violation(key, f"Python tick sequence {label} differs from the fold of readings ({nm}) at {e}", path)
                            reported = True
                            break
                    else:
                        part.d["inconclusive"].append(f"{key_base}/leaf{li}: {nm} sat, not reproduced in floats")
    part.d["obligations"].append({"name": f"{key_base}: 5 clauses x {len(ticks)} ticks x {len(ok)} leaves", "status": "unsat" if n_unsat == n_tot else "mixed", "s": 0})
    if not ok:
        part.harness_error(f"{key_base}: no complete leaf")
    part.sample({"impl": "python", "tick_sequence": [list(k_) for k_ in ticks], "K": K, "leaves": len(ok), "reject_variant": reject})
    return part.d


class _RejectingTrace(TraceFilter):
    def __init__(self, max_dt, control_size, rejects):
        super().__init__(max_dt, control_size)
        self.rejects = list(rejects or [])
        self.n = 0

    def process_model(self, dt, state, covariance, control=None):
        tag = ("P", float(dt), float(control) if control is not None else 0.0)
        return _SC(state + (tag,), covariance + (tag,))

    def sensor_model(self, state, covariance, *, sensor_key, sensor_reading):
        i = self.n
        self.n += 1
        if i < len(self.rejects) and self.rejects[i]:
            return _SC(state, covariance)
        return super().sensor_model(state, covariance, sensor_key=sensor_key, sensor_reading=sensor_reading)


def float_sequence_differs(e, ticks, with_control, rejects):
    """Real ticks on floats with a tracing filter against the float reference fold (control recorded in each step)."""
    from formak import runtime

    f = _RejectingTrace(MAX_DT, 1 if with_control else 0, rejects)
    mf = runtime.ManagedFilter(f, float(e["t0"]), (), ())
    t, tr = float(e["t0"]), ()
    n = 0
    for j, keys in enumerate(ticks):
        ctl = float(e.get(f"u_{j}", 0.5)) if with_control else None
        rds = [runtime.StampedReading(float(e[f"ts_{j}_{i}"]), k_, v=float(e[f"v_{j}_{i}"])) for i, k_ in enumerate(keys)]
        res = mf.tick(float(e[f"out_{j}"]), control=ctl, readings=rds if keys else None)

        def prop(t_, tr_, target):
            out = float_ref_propagate(t_, tr_, target, MAX_DT)
            # tag the new steps with the control of this tick
            return tr_ + tuple(("P", st[1], ctl if ctl is not None else 0.0) for st in out[len(tr_):])

        for i, k_ in enumerate(keys):
            tr = prop(t, tr, float(e[f"ts_{j}_{i}"]))
            if not (rejects and n < len(rejects) and rejects[n]):
                tr = tr + (("S", k_, float(e[f"v_{j}_{i}"])),)
            n += 1
            t = float(e[f"ts_{j}_{i}"])
        want_ret = prop(t, tr, float(e[f"out_{j}"]))
        if _tr_differ(res.state, want_ret) or _tr_differ(mf.state, tr) or abs(mf.current_time - t) > 1e-12:
            return True, [res.state, mf.current_time, mf.state], [want_ret, t, tr]
    return False, None, None


def _tr_differ(a, b):
    if len(a) != len(b):
        return True
    for x, y in zip(a, b):
        if x[0] != y[0]:
            return True
        if x[0] == "P" and (abs(x[1] - y[1]) > 1e-7 or abs(x[2] - y[2]) > 1e-12):
            return True
        if x[0] == "S" and (x[1] != y[1] or abs(x[2] - y[2]) > 1e-12):
            return True
    return False


def py_task_control_required(tier, seed):
    """control=None with control_size>0 raises TypeError on every path."""
    part = Part()
    part.program("runtime.ManagedFilter")
    from formak import runtime

    t0, out, ts0, v0 = z3.Real("t0"), z3.Real("out"), z3.Real("ts0"), z3.Real("v0")
    for keys in ((), ("a",)):

        def harness():
            f = UFFilter(MAX_DT, 2)
            mf = runtime.ManagedFilter(f, SymReal(t0), z3.Real("s0"), z3.Real("P0"))
            rds = [runtime.StampedReading(SymReal(ts0), "a", v=SymReal(v0))] if keys else None
            mf.tick(SymReal(out), control=None, readings=rds)
            return f.calls

        leaves = explore(harness, kmax=1)
        part.leaves(leaves)
        ok = all(l.status == "exc" and isinstance(l.value, TypeError) for l in leaves) and len(leaves) >= 1
        part.record(Q("unsat" if ok else "sat", None, 0.0, ""), f"py/control-required/readings={len(keys)}: TypeError on every path ({len(leaves)} paths)")
        if not ok:
            path = write_replay(PID, {"key": "py/tick/control-required", "info": {"kind": "py-control", "keys": list(keys)}, "inputs": {"t0": 0.0, "out": 0.3, "ts0": 0.1, "v0": 1.0}})
            part.violation("py/tick/control-required", f"tick(control=None) on a model with control inputs did not raise TypeError: {leaves[:3]}", path)
    return part.d


def long_gap_task(tier, seed):
    """'A tick without readings never changes what later ticks return' for output-only ticks that span thousands of
    maximum steps (a long sensor dropout): outside the K-step bound of the solver clauses, replayed on the real Python
    runtime with a call-recording stand-in filter.  Two managed filters get the same history except that one of them
    is additionally asked for its estimate far ahead (and far behind) first; every later call sequence must be identical."""
    from formak import runtime

    from .c10 import RecordingFilter

    part = Part()
    part.program("runtime.ManagedFilter")
    part.fn("runtime.ManagedFilter.tick", "runtime.ManagedFilter._process_model")
    cases = [(0.1, 600.5), (0.01, 75.25), (0.1, -550.25)] + ([] if tier == "quick" else [(0.05, 2000.0), (0.001, 30.5), (0.25, 5000.125)])
    for md, gap in cases:
        logs = []
        for extra in (False, True):
            f = RecordingFilter(md)
            mf = runtime.ManagedFilter(f, 1.0, "s", "P")
            if extra:
                mf.tick(1.0 + gap)
            n0 = len(f.dts)
            mf.tick(4.0, readings=[runtime.StampedReading(3.25, "a", v=1.0)])
            mf.tick(4.5)
            mf.tick(5.0, readings=[runtime.StampedReading(4.75, "a", v=2.0)])
            logs.append((list(f.dts[n0:]), float(mf.current_time)))
        key = f"py/long-output-only-tick/max_dt={md}/gap={gap}"
        same = logs[0] == logs[1]
        part.record(Q("unsat" if same else "sat", None, 0.0, ""), f"{key}: an output-only tick spanning {abs(gap) / md:.0f} steps does not change the later call sequence or the held time (concrete replay)")
        if not same:
            path = write_replay(PID, {"key": key, "info": {"kind": "py-long-gap", "max_dt": md, "gap": gap}, "inputs": {}, "without": str(logs[0])[:600], "with": str(logs[1])[:600]})
            part.violation(key, f"Python runtime: after an output-only tick {gap} s away (max_dt={md}) later ticks issue a different call sequence / hold a different time: {str(logs[1])[:200]} vs {str(logs[0])[:200]}", path)
    return part.d


def _dispatch(fn, args):
    return fn(*args)


def run(tier, seed):
    rep = Report(PID, tier, seed, "other")
    tasks = [(py_task_control_required, (tier, seed))]
    if tier == "quick":
        combos = [((), 2, False), (("a",), 1, False), (("a",), 1, True), (("a", "b"), 1, False)]
    else:
        combos = [((), 3, False), ((), 3, True), (("a",), 2, False), (("a",), 2, True), (("a", "b"), 2, False), (("b", "a"), 1, True), (("a", "a"), 1, False), (("a", "b", "a"), 1, False)]
    for keys, K, wc in combos:
        tasks.append((py_task, (keys, K, wc, tier, seed)))
    # history dimension: sequences of ticks on one managed filter; and a filter that may discard readings
    seqs = [(((), ()), 1, True, False), ((("a",), ()), 1, False, False), ((("a",),), 1, False, True)]
    if tier != "quick":
        seqs += [(((), ("a",), ()), 1, True, False), ((("a", "b"),), 1, True, True), ((("a",), ("b",)), 1, False, True), (((), ()), 2, True, False)]
    for ticks, K, wc, rej in seqs:
        tasks.append((py_task_sequence, (ticks, K, wc, tier, seed, rej)))
    try:
        from . import c11_cpp

        tasks += c11_cpp.tasks(tier, seed)
        rep.extra["cpp_part"] = "included"
    except ImportError:
        rep.extra["cpp_part"] = "not built yet"
    from . import cfgrb

    tasks += [(cfgrb.task, (PID, *c, tier, seed)) for c in cfgrb.combos(tier)]
    tasks.append((long_gap_task, (tier, seed)))
    for d in pmap(_dispatch, tasks):
        rep.merge(d)
    rep.bounds = {"readings_per_tick": "0..2 (quick) / 0..3 (thorough)", "K_full_steps_per_propagation": "1-2 (quick) / 1-3 (thorough)", "timestamps": "all symbolic in [-100, 100], any order", "max_dt": MAX_DT, "histories": "held (time, state, covariance) symbolic: one tick from an arbitrary held state"}
    rep.assumptions = ["filter operations as uninterpreted functions (the term is the call trace)", "reference fold written from the property statement, run in the same path context"]
    return finish(
        rep,
        explanation="The real tick runs with a filter whose process/sensor models are uninterpreted functions, on symbolic held time/output time/reading timestamps; per feasible leaf the solver proves that the returned estimate and the held triple equal a reference fold written from the property statement; ticks without readings leave the held triple term-identical; control=None with control inputs raises TypeError on every path.",
        rule="5 obligations per leaf; leaves = feasible orderings x step counts within K",
        trusted_base=["z3 5.1", "engine/symreal", "engine/vsym"],
    )


def replay(path):
    with open(path) as f:
        r = json.load(f)
    if r.get("info", {}).get("kind") == "cfgrb":
        from . import cfgrb

        return cfgrb.replay(PID, r["info"])
    info = r["info"]
    if info["kind"] == "py-long-gap":
        d = long_gap_task("thorough", 0)
        print([v["what"][:200] for v in d["violations"]])
        print("REPRODUCED" if d["violations"] else "not reproduced")
        return 1 if d["violations"] else 0
    if info["kind"] == "py-seq":
        differs, got, want = float_sequence_differs(r["inputs"], [tuple(k_) for k_ in info["ticks"]], info["with_control"], info.get("rejects"))
        print("got ", got)
        print("want", want)
        print("REPRODUCED" if differs else "not reproduced")
        return 1 if differs else 0
    if info["kind"] == "py":
        got, want = float_run(r["inputs"], info["keys"], info["with_control"])
        print("got ", got)
        print("want", want)
        if float_differs(got, want):
            print("REPRODUCED")
            return 1
        print("not reproduced")
        return 0
    if info["kind"] == "py-control":
        from formak import runtime

        f = TraceFilter(MAX_DT, 2)
        mf = runtime.ManagedFilter(f, 0.0, (), ())
        try:
            mf.tick(0.3, control=None, readings=None)
        except TypeError:
            print("not reproduced")
            return 0
        print("REPRODUCED: no TypeError")
        return 1
    from . import c11_cpp

    return c11_cpp.replay(r)
