"""Helpers around engine.vsym for the checks: build a generated filter + driver, run scenarios, replay concretely."""
from __future__ import annotations

import contextlib
import io
import os

from engine.vsym import build, drivers


class CppFilter:
    """Generated C++ of one corpus program (EKF or plain Model), compiled with double -> Sym; concrete twin lazily."""

    def __init__(self, p, *, ekf=True, cse=True, k=5.0, max_dt=0.1, container="list", reverse=False, noise=None, extra_body=None, extra_includes=(), cal_container="set", history=True, config_form="auto"):
        self.p, self.ekf, self.cse, self.k, self.max_dt = p, ekf, cse, k, max_dt
        self.container, self.reverse, self.noise = container, reverse, noise
        self.cal_container = cal_container
        self.history = history
        self.config_form = config_form
        self.gen_info = {}
        self.dir = None
        self.exe = None
        self.exe_c = None
        self.body = None
        self.includes = None
        self.extra_body = extra_body
        self.extra_includes = list(extra_includes)
        self.header_text = None
        self.source_text = None

    def __enter__(self):
        self.dir = build.workdir()
        try:
            buf = io.StringIO()
            with contextlib.redirect_stdout(buf):
                h, s = build.generate(self.p, self.dir, ekf=self.ekf, cse=self.cse, k=self.k, max_dt=self.max_dt, container=self.container, reverse=self.reverse, noise=self.noise, cal_container=self.cal_container, warm_program=self._warm_program(), config_form=self.config_form)
            self.gen_info = dict(build.generate.last_info)
            self.header_text = open(h).read()
            self.source_text = open(s).read()
            self.includes = ["#include <formak/gen.h>", '#include "gen.cpp"'] + self.extra_includes
            if self.extra_body is not None:
                self.body = self.extra_body
            else:
                self.body = drivers.ekf_driver(self.p) if self.ekf else drivers.model_driver(self.p)
        except BaseException:
            build.cleanup(self.dir)
            raise
        return self

    def _warm_program(self):
        """A differently shaped program (opposite control / calibration presence) generated first in the same process."""
        if not self.history:
            return None
        from corpus import programs as CP

        return CP.P3().restrict(control=not bool(self.p.control), calibration=not bool(self.p.calibration), pid="warm")

    def compile_symbolic(self):
        self.exe = build.compile_driver(self.dir, self.body, includes=self.includes)
        return self.exe

    def compile_concrete(self):
        if self.exe_c is None:
            self.exe_c = build.compile_driver(self.dir, self.body, includes=self.includes, concrete=True)
        return self.exe_c

    def run(self, scenario="", kmax=3):
        pfx = "leaf_" + "".join(ch if ch.isalnum() else "_" for ch in scenario)
        return build.run_symbolic(self.exe, self.dir, pfx, args=[scenario] if scenario else [], kmax=kmax)

    def run_concrete(self, scenario, inputs):
        self.compile_concrete()
        return build.run_concrete(self.exe_c, self.dir, inputs, args=[scenario] if scenario else [])

    def __exit__(self, *a):
        build.cleanup(self.dir)
        return False


def cpp_inputs_from_env(p, e):
    """Input file entries for the concrete twin from a harness env (names are shared)."""
    return {k: float(v) for k, v in e.items() if isinstance(v, (int, float))}
