"""C07 - Python and generated C++ filters agree step for step (E1 + E2)."""
from __future__ import annotations

import json
import random

import numpy as np
import z3

from corpus import programs as CP
from engine.symreal import expr as X
from engine.symreal.core import SymReal, explore, lift
from engine.symreal.shim import installed
from engine.vsym import build

from . import pyh
from .common import Part, Q, Report, approx_equal, finish, pmap, quiet, solve, tier_timeout_ms, write_replay
from .cpph import CppFilter
from .oblig import prove_equal, prove_valid, reach

PID = "C07"


def py_float(p, cse, k, e, scenario):
    """Real Python filter in floats for a scenario -> dict of named outputs (same names as the C++ driver)."""

    def go():
        with quiet():
            ekf = pyh.build_ekf_float(p, e, cse=cse, k=k)
            ss = p.s_state()
            st = ekf.State(**{s: float(e[s]) for s in p.state})
            cov = ekf.Covariance.from_data(pyh.float_cov(p.state, e))
            out = {}

            def dump(r):
                for i, s in enumerate(ss):
                    out[f"x_{s}"] = float(r.state.data[i, 0])
                for i in range(len(ss)):
                    for j in range(len(ss)):
                        out[f"P_{i}_{j}"] = float(r.covariance.data[i, j])

            if scenario == "predict":
                ct = ekf.Control(**{c: float(e[c]) for c in p.control})
                dump(ekf.process_model(float(e[p.dt]), st, cov, ct))
                return out
            keys = p.s_sensors() if scenario == "seq" else [scenario.split(":", 1)[1]]
            cur = pyh.pyh_sv(st, cov)
            for key in keys:
                rd = ekf.make_reading(key, **{r: float(e[f"z_{key}_{r}"]) for r in p.sensors[key]})
                cur = ekf.sensor_model(st, cov, sensor_key=key, sensor_reading=rd)
            if scenario == "seq" and keys:
                key = keys[0]
                rd = ekf.make_reading(key, **{r: float(e.get(f"zb_{key}_{r}", 0.375)) for r in p.sensors[key]})
                cur = ekf.sensor_model(st, cov, sensor_key=key, sensor_reading=rd)
            dump(cur)
            for key in keys:
                for i, r in enumerate(p.s_readings(key)):
                    out[f"innov_{key}_{r}"] = float(ekf.innovations[key][i, 0]) if key in ekf.innovations else float("nan")
            return out

    return pyh.gate_guard(go)


def py_prior_modified(p, cse, k, e):
    def go():
        probs = []
        with quiet():
            ekf = pyh.build_ekf_float(p, e, cse=cse, k=k)
            st = ekf.State(**{s: float(e[s]) for s in p.state})
            cov = ekf.Covariance.from_data(pyh.float_cov(p.state, e))
            s0, P0 = st.data.copy(), cov.data.copy()
            for key in p.s_sensors():
                rd = ekf.make_reading(key, **{r: float(e[f"z_{key}_{r}"]) for r in p.sensors[key]})
                ekf.sensor_model(st, cov, sensor_key=key, sensor_reading=rd)
                if not (np.array_equal(s0, st.data) and np.array_equal(P0, cov.data)):
                    probs.append(f"prior changed by the update with sensor {key}")
                    break
        return probs

    return pyh.gate_guard(go)


def seeded_env(p, rng, far=False):
    e = {nm: rng.randint(-16, 16) / 8.0 for nm in pyh.input_env(p)}
    e.update(pyh.seeded_cov_env(p.state, rng))
    for key in p.sensors:
        for r in p.sensors[key]:
            e[f"z_{key}_{r}"] = round(X.evalf(p.sensors[key][r], e) + (rng.choice([-30.0, 30.0]) if far else rng.randint(-2, 2) / 16.0), 6)
    return e


def task(p, cse, k, tier, seed):
    part = Part()
    part.program(p.id)
    part.fn("python.ExtendedKalmanFilter.process_model", "python.ExtendedKalmanFilter.sensor_model", "cpp.compile_ekf", "templates/process_model.cpp", "templates/sensor_model.hpp", "templates/innovations.hpp", "cpp/include/formak/innovation_filtering.h", "ast_fragments.*")
    env = pyh.input_env(p)
    ss = p.s_state()
    n = len(ss)
    zin = {key: {r: z3.Real(f"z_{key}_{r}") for r in p.sensors[key]} for key in p.sensors}
    _, _, _, _, assumes = __import__("checks.c02", fromlist=["spec_pieces"]).spec_pieces(p, env)
    Psym, Pvars = pyh.sym_cov(p.state)
    tmo = tier_timeout_ms(tier)
    key_base = f"{p.id}/cse={int(cse)}/k={k}"
    info = {"program": p.id, "cse": cse, "k": k}
    allv = dict(env)
    for (a, b), v in Pvars.items():
        allv[f"P_{a}_{b}"] = v
    for key in zin:
        for r, v in zin[key].items():
            allv[f"z_{key}_{r}"] = v
    wit = pyh.diag_dominant(p.state)

    def seeded_envs(rng, cnt):
        return [seeded_env(p, rng, far=(i % 2 == 1)) for i in range(cnt)]

    try:
        cf = CppFilter(p, ekf=True, cse=cse, k=k)
        cf.__enter__()
    except Exception as ex:
        part.harness_error(f"{key_base}: generation failed: {type(ex).__name__}: {ex}")
        return part.d
    try:
        try:
            cf.compile_symbolic()
        except build.BuildError as ex:
            path = write_replay(PID, {"key": key_base + "/compile", "info": info, "inputs": {}, "compiler_log": ex.log[-3000:]})
            part.violation(key_base + "/compile", "generated C++ filter does not compile", path)
            return part.d

        # ---------------- Python side (symbolic), noise = the program's concrete numbers (as printed into the C++)
        def py_run(scenario):
            def harness():
                with installed(), quiet():
                    ekf = pyh.build_ekf_sym(p, env, p.process_noise, p.sensor_noise, cse=cse, k=k)
                    st = ekf.State(**pyh.sym_state_kwargs(p.state, env))
                    cov = ekf.Covariance.from_data(Psym.copy())
                    prior = (st.data.copy(), cov.data.copy())
                    if scenario == "predict":
                        ct = ekf.Control(**pyh.sym_state_kwargs(p.control, env))
                        r = ekf.process_model(SymReal(env[p.dt]), st, cov, ct)
                        return r, {}, True
                    keys = p.s_sensors() if scenario == "seq" else [scenario.split(":", 1)[1]]
                    cur = pyh.pyh_sv(st, cov)
                    for key in keys:
                        rd = ekf.make_reading(key, **{r: SymReal(zin[key][r]) for r in p.sensors[key]})
                        cur = ekf.sensor_model(st, cov, sensor_key=key, sensor_reading=rd)
                    if scenario == "seq" and keys:
                        key = keys[0]
                        rd = ekf.make_reading(key, **{r: SymReal(z3.Real(f"zb_{key}_{r}")) for r in p.sensors[key]})
                        cur = ekf.sensor_model(st, cov, sensor_key=key, sensor_reading=rd)
                    pure = all(lift(a).eq(lift(b)) for A, B in zip(prior, (st.data, cov.data)) for a, b in zip(A.reshape(-1), B.reshape(-1)))
                    return cur, {key: ekf.innovations[key].copy() for key in keys}, pure

            return explore(harness, assumes=assumes, config={"gate": "assume", "inverse": "cut"})

        def py_outputs(leaf, scenario):
            r, inns, _pure = leaf.value
            out = {}
            for i, s in enumerate(ss if r is not None else []):
                out[f"x_{s}"] = lift(r.state.data[i, 0])
            for i in range(n if r is not None else 0):
                for j in range(n):
                    out[f"P_{i}_{j}"] = lift(r.covariance.data[i, j])
            for key, arr in inns.items():
                for i, rr in enumerate(p.s_readings(key)):
                    out[f"innov_{key}_{rr}"] = lift(arr[i, 0])
            return out

        scenarios = ["predict"] + [f"update:{key}" for key in p.s_sensors()]
        if len(p.sensors) >= 2:
            scenarios.append("seq")
        for scn in scenarios:
            pl = py_run(scn)
            part.leaves(pl)
            if any(l.status != "ok" for l in pl):
                part.harness_error(f"{key_base}/{scn}: python path failed: {[l for l in pl if l.status != 'ok'][:2]}")
                continue
            if not all(l.value[2] for l in pl):
                # the Python update modified the prior it was given (the C++ takes it by const reference)
                found = False
                for e in seeded_envs(random.Random(seed + 2), 6):
                    try:
                        probs = py_prior_modified(p, cse, k, e)
                    except pyh.GateRejected:
                        continue
                    if probs:
                        path = write_replay(PID, {"key": f"{key_base}/prior-modified", "info": dict(info, scenario="prior-modified"), "inputs": e, "problems": probs})
                        part.violation(f"{key_base}/prior-modified", f"python sensor_model modifies the prior it is given, so a second update from the same prior differs from the C++ filter: {probs[0]}", path)
                        found = True
                        break
                if not found:
                    part.d["inconclusive"].append(f"{key_base}/{scn}: prior modified symbolically, not reproduced concretely")
                continue
            cl, _ = cf.run(scn)
            part.d["paths"]["leaves"] += len(cl)
            if len(pl) != len(cl):
                # different number of decision paths: find a concrete disagreement
                _concrete_compare(part, p, cf, cse, k, scn, key_base, info, seeded_envs(random.Random(seed), 6), reason=f"{len(pl)} python paths vs {len(cl)} C++ paths")
                continue

            def mk_replay(oname, scn=scn):
                def replay(e):
                    e = dict(e)
                    got_py = py_float(p, cse, k, e, scn)
                    got_c, _, _ = cf.run_concrete(scn, _cpp_inputs(p, e))
                    if oname not in got_py or oname not in got_c:
                        return None
                    return {"impl": got_c[oname], "spec": got_py[oname]}

                return replay

            def replay_all(e, scn=scn):
                """All named outputs of the scenario on both sides (used where the compared quantity, e.g. the
                inverse argument S, is internal: if it really differs, the outputs do)."""
                e = dict(e)
                got_py = py_float(p, cse, k, e, scn)
                got_c, _, _ = cf.run_concrete(scn, _cpp_inputs(p, e))
                names = [nm for nm in got_py if nm in got_c]
                return {"impl": [got_c[nm] for nm in names], "spec": [got_py[nm] for nm in names]}

            # match leaves by equivalent path conditions
            unmatched = list(cl)
            for l in pl:
                pa = l.assumes
                po = py_outputs(l, scn)
                mate = None
                wit_envs = []
                for c in unmatched:
                    if not l.pc and not c.pc:
                        mate = c
                        break
                    # same cut symbols on both sides: first make sure the inverse arguments agree
                    q = solve(pa + [z3.Not(l.pc_term() == c.pc_term())], tmo)
                    if q.status == "unsat":
                        mate = c
                        part.record(q, f"{key_base}/{scn}: accept/reject decision equivalent on path {c.decisions or '-'}")
                        break
                    if q.status == "sat":
                        # the solver's own witness of a differing decision is the first candidate to replay; a second one
                        # on the dyadic grid (exact in doubles) if there is one
                        from .oblig import env_from_model
                        from .common import dyadic_box

                        wit_envs.append(env_from_model(q.model, allv))
                if mate is None:
                    _concrete_compare(part, p, cf, cse, k, scn, key_base, info, wit_envs + seeded_envs(random.Random(seed + 1), 8), reason="no C++ path with an equivalent accept/reject condition")
                    continue
                unmatched.remove(mate)
                # inverse arguments (cut-points) agree
                ccuts = mate.inverse_cuts()
                for ci, cut in enumerate(l.cuts):
                    if cut["k"] not in ccuts:
                        part.harness_error(f"{key_base}/{scn}: C++ leaf has no inverse cut {cut['k']}")
                        continue
                    carg, _ = ccuts[cut["k"]]
                    m = len(carg)
                    for i in range(m):
                        for j in range(m):
                            prove_equal(part, PID, f"{key_base}/{scn}: inverse argument S[{i},{j}] equal (cut {cut['k']})", carg[i][j], lift(cut["arg"][i, j]), pa + l.pc, tmo, replay=replay_all, key=f"{key_base}/{scn}/S", info=dict(info, scenario=scn, output="x_" + ss[0]), all_vars=allv, witness_constraints=wit, seeded_envs=seeded_envs)
                for oname, pt in po.items():
                    if oname not in mate.out:
                        if oname.startswith("innov_") and any("innovation_missing" in nt for nt in mate.notes):
                            e0 = seeded_envs(random.Random(seed), 1)[0]
                            path = write_replay(PID, {"key": f"{key_base}/{scn}/{oname}", "info": dict(info, scenario=scn, output=oname), "inputs": e0})
                            part.violation(f"{key_base}/{scn}/{oname}", f"C++ filter has no stored innovation for {oname} after the update", path)
                        else:
                            part.harness_error(f"{key_base}/{scn}: C++ output {oname} missing")
                        continue
                    prove_equal(part, PID, f"{key_base}/{scn}[{mate.decisions or '-'}]: {oname} python==c++", mate.out[oname], pt, pa + l.pc, tmo, replay=mk_replay(oname), key=f"{key_base}/{scn}/{oname}", info=dict(info, scenario=scn, output=oname), all_vars=allv, witness_constraints=wit, seeded_envs=seeded_envs)
                # named diagonal accessors of the C++ covariance agree with the python diagonal
                for i, s in enumerate(ss):
                    if f"Pdiag_{s}" in mate.out and f"P_{i}_{i}" in po:
                        prove_equal(part, PID, f"{key_base}/{scn}[{mate.decisions or '-'}]: covariance.{s}() == python P[{s},{s}]", mate.out[f"Pdiag_{s}"], po[f"P_{i}_{i}"], pa + l.pc, tmo, replay=None, key=f"{key_base}/{scn}/Pdiag_{s}", all_vars=allv)
            part.sample({"program": p.id, "scenario": scn, "python_paths": len(pl), "cpp_paths": len(cl)})
        reach(part, key_base + "/assumptions-sat", assumes + wit)
    finally:
        cf.__exit__(None, None, None)
    return part.d


def _cpp_inputs(p, e):
    out = {k: float(v) for k, v in e.items() if isinstance(v, (int, float))}
    for nm in pyh.input_env(p):
        out.setdefault(nm, 0.5)
    for key in p.sensors:
        for r in p.sensors[key]:
            out.setdefault(f"zb_{key}_{r}", 0.375)
    return out


def _concrete_compare(part, p, cf, cse, k, scn, key_base, info, envs, reason):
    for e in envs:
        try:
            a = py_float(p, cse, k, e, scn)
        except pyh.GateRejected:
            continue
        b, _, _ = cf.run_concrete(scn, _cpp_inputs(p, e))
        part.d["witnesses"] += 1
        bad = [nm for nm in a if nm in b and not approx_equal(a[nm], b[nm], rel=1e-6, abs_=1e-8)]
        if bad:
            path = write_replay(PID, {"key": f"{key_base}/{scn}/{bad[0]}", "info": dict(info, scenario=scn, output=bad[0]), "inputs": e, "python": a, "cpp": b})
            part.violation(f"{key_base}/{scn}/{bad[0]}", f"python and C++ disagree on {bad[:4]} ({reason})", path)
            return
    # boundary sweep: the solver's witness leaves the inverse cut symbols free, so it need not replay; walk the reading
    # away from the prediction along a few directions - somewhere the two sides must change their decision, and if
    # they do so at different distances the disagreement shows between the two
    if scn.startswith("update:"):
        key = scn.split(":", 1)[1]
        rng = random.Random(7)
        for e0 in envs[-3:]:
            rs = p.s_readings(key)
            d = [rng.choice([-1.0, 1.0]) * rng.randint(2, 8) / 8.0 for _ in rs]
            for step in range(36):
                t = 0.25 * (1.25 ** step)
                e = dict(e0)
                for r_, d_ in zip(rs, d):
                    e[f"z_{key}_{r_}"] = X.evalf(p.sensors[key][r_], e0) + t * d_
                try:
                    a = py_float(p, cse, k, e, scn)
                except pyh.GateRejected:
                    continue
                b, _, _ = cf.run_concrete(scn, _cpp_inputs(p, e))
                part.d["witnesses"] += 1
                bad = [nm for nm in a if nm in b and not approx_equal(a[nm], b[nm], rel=1e-6, abs_=1e-8)]
                if bad:
                    path = write_replay(PID, {"key": f"{key_base}/{scn}/{bad[0]}", "info": dict(info, scenario=scn, output=bad[0]), "inputs": e, "python": a, "cpp": b})
                    part.violation(f"{key_base}/{scn}/{bad[0]}", f"python and C++ disagree on {bad[:4]} ({reason}; found by walking the reading away from the prediction)", path)
                    return
    part.d["inconclusive"].append(f"{key_base}/{scn}: {reason}; no concrete disagreement found")


def _group_close(a, b, names, rel=1e-7):
    """Entries of one output group (covariance / state / innovations) agree relative to the group's largest magnitude."""
    bad = []
    for prefix in ("P_", "x_", "innov_"):
        g = [nm for nm in names if nm.startswith(prefix)]
        if not g:
            continue
        scale = max([abs(a[nm]) for nm in g] + [abs(b[nm]) for nm in g] + [1e-300])
        bad += [nm for nm in g if not (abs(a[nm] - b[nm]) <= rel * scale)]
    return bad


def task_regimes(p, cse, tier, seed):
    """Python filter vs generated C++ filter at valid inputs in value regimes (pyh.regime_envs); the model's noise is
    part of the generated code, so the tiny-covariance regime uses a twin of the program with all noise scaled by 2^-46."""
    part = Part()
    part.program(p.id)
    part.fn("python.ExtendedKalmanFilter.process_model", "python.ExtendedKalmanFilter.sensor_model", "templates/process_model.cpp", "templates/sensor_model.hpp")
    rng = random.Random(seed + 919)
    sc = 2.0 ** -46
    twins = {"normal": p, "tiny": CP.with_noise(p, process={c: v * sc for c, v in p.process_noise.items()}, sensor={k_: {r: v * sc for r, v in rs.items()} for k_, rs in p.sensor_noise.items()}, pid=p.id + "-tiny-noise")}
    for tw, q in twins.items():
        try:
            cf = CppFilter(q, ekf=True, cse=cse, k=None, history=False)
            cf.__enter__()
        except Exception as ex:
            part.harness_error(f"{q.id}: generation failed: {type(ex).__name__}: {ex}")
            continue
        try:
            try:
                cf.compile_concrete()
            except build.BuildError as ex:
                path = write_replay(PID, {"key": q.id + "/compile", "info": {"program": p.id, "cse": cse, "k": None, "kind": "regime", "twin": tw}, "inputs": {}, "compiler_log": ex.log[-3000:]})
                part.violation(q.id + "/compile", "generated C++ filter does not compile", path)
                continue
            scns = ["predict"] + [f"update:{k_}" for k_ in q.s_sensors()]
            for scn in scns:
                key = scn.split(":", 1)[1] if ":" in scn else None
                for label, e in pyh.regime_envs(q, rng, readings_for=key, noise_in_program=True):
                    if (label == "tiny-cov") != (tw == "tiny"):
                        continue
                    kb = f"{q.id}/cse={int(cse)}/{scn}/regime={label}"
                    if key is not None:
                        from .c05 import spec_float as _upd_spec

                        try:
                            if np.linalg.cond(_upd_spec(q, key, e)["S"]) > 1e6:
                                continue  # scale, not conditioning, is what the regimes are about
                        except (np.linalg.LinAlgError, ZeroDivisionError, ValueError, OverflowError):
                            continue
                    try:
                        a = py_float(q, cse, None, e, scn)
                    except pyh.GateRejected:
                        continue
                    except (np.linalg.LinAlgError, ZeroDivisionError, OverflowError, FloatingPointError):
                        continue
                    try:
                        b, _, _ = cf.run_concrete(scn, _cpp_inputs(q, e))
                    except build.BuildError:
                        continue
                    names = [nm for nm in a if nm in b]
                    if not all(np.isfinite(b[nm]) for nm in names) or not all(np.isfinite(a[nm]) for nm in names if not nm.startswith("innov_")):
                        continue
                    bad = _group_close(a, b, names)  # a missing (nan) stored innovation on the python side counts as a disagreement
                    part.record(Q("sat" if bad else "unsat", None, 0.0, ""), f"{kb}: python == c++ relative to the output group's magnitude (concrete replay)")
                    if bad:
                        path = write_replay(PID, {"key": kb, "info": {"program": p.id, "cse": cse, "k": None, "kind": "regime", "twin": tw, "scenario": scn}, "inputs": e, "python": a, "cpp": b})
                        part.violation(kb, f"python and C++ disagree on {bad[:4]} in the {label} regime at {e}: python {[a[nm] for nm in bad[:4]]} c++ {[b[nm] for nm in bad[:4]]}", path)
                        break
        finally:
            cf.__exit__(None, None, None)
    return part.d


def configs(tier, seed):
    if tier == "quick":
        return [(CP.P3(), True, 4.0), (CP.P3().restrict(control=False, calibration=False), False, None), (CP.P1(), True, None), (CP.P8(), True, 3.0), (CP.P17(), True, None)]
    out = []
    progs = [CP.P1(), CP.P2(), CP.P7(), CP.P8(), CP.P17(), CP.P19(), CP.P20()] + CP.presence_variants(CP.P3()) + CP.presence_variants(CP.P10())
    progs += [CP.random_program(seed, i) for i in range(6)]
    for p in progs:
        out.append((p, True, 4.0))
        out.append((p, False, None))
    out.append((CP.P3(), False, 4.0))
    out.append((CP.P3(), True, None))
    return out


def _dispatch(fn, args):
    return fn(*args)


def run(tier, seed):
    rep = Report(PID, tier, seed, "translation_validation")
    cfgs = configs(tier, seed)
    from . import cfgrb

    tasks = [(task, (p, cse, k, tier, seed)) for p, cse, k in cfgs] + [(cfgrb.task, (PID, *c, tier, seed)) for c in cfgrb.combos(tier)]
    rps = [CP.P8(), CP.P1()] if tier == "quick" else [CP.P8(), CP.P1(), CP.P3(), CP.P13(), CP.P17()]
    tasks += [(task_regimes, (p, True, tier, seed)) for p in rps]
    for d in pmap(_dispatch, tasks):
        rep.merge(d)
    rep.bounds = {"configurations": [f"{p.id}/cse={int(c)}/k={k}" for p, c, k in cfgs], "inputs": "all real dt/state/control/calibration/readings, all symmetric P; noise = the program's concrete numbers", "outside": "floating-point rounding; real Eigen"}
    rep.assumptions = ["matrix inverse is a shared cut-point on both sides (arguments proved equal first)", "python validity gates assumed to pass (the C++ side has none)", "stand-in Eigen/Dense"]
    return finish(
        rep,
        explanation="The same model is run through the real Python filter (E1) and the generated C++ filter (E2) with inputs bound by name to the same z3 variables: prediction state/covariance, per-sensor update on matched accept/reject paths (path conditions proved equivalent), stored innovations read back after updating all sensors in sequence, and named diagonal accessors are proved equal for all inputs.",
        rule="one obligation per (configuration, scenario, matched path, named output)",
        trusted_base=["z3 5.1", "engine/symreal", "engine/vsym", "g++ 12"],
    )


def replay(path):
    with open(path) as f:
        r = json.load(f)
    if r.get("info", {}).get("kind") == "cfgrb":
        from . import cfgrb

        return cfgrb.replay(PID, r["info"])
    info = r["info"]
    ps = {}
    for p, _, _ in configs("thorough", int(r.get("seed", 0))) + configs("quick", 0):
        ps[p.id] = p
    for p in CP.catalogue():
        ps.setdefault(p.id, p)
    p = ps[info["program"]]
    if info.get("kind") == "regime":
        d = task_regimes(p, info["cse"], "quick", int(r.get("seed", 0)))
        print([v["what"][:300] for v in d["violations"]])
        print("REPRODUCED" if d["violations"] else "not reproduced")
        return 1 if d["violations"] else 0
    with CppFilter(p, ekf=True, cse=info["cse"], k=info["k"]) as cf:
        if "compiler_log" in r:
            try:
                cf.compile_symbolic()
            except build.BuildError as ex:
                print("REPRODUCED: does not compile\n", ex.log[-1500:])
                return 1
            print("not reproduced")
            return 0
        e = r["inputs"]
        scn = info["scenario"]
        if scn == "prior-modified":
            probs = py_prior_modified(p, info["cse"], info["k"], e)
            print(probs)
            print("REPRODUCED" if probs else "not reproduced")
            return 1 if probs else 0
        try:
            a = py_float(p, info["cse"], info["k"], e, scn)
        except pyh.GateRejected as ex:
            print("gate rejected:", ex)
            return 0
        b, _, notes = cf.run_concrete(scn, _cpp_inputs(p, e))
    bad = [nm for nm in a if nm not in b or not approx_equal(a[nm], b[nm], rel=1e-6, abs_=1e-8)]
    print("python", a)
    print("cpp   ", b, notes)
    if bad:
        print("REPRODUCED:", bad)
        return 1
    print("not reproduced")
    return 0
