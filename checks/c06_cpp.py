"""C06, C++ side: removeInnovation<m> helper and the generated sensor_model's reject path (E2)."""
from __future__ import annotations

import math
import random

import numpy as np
import z3

from corpus import programs as CP
from engine.symreal.core import qval
from engine.vsym import build

from . import pyh
from .common import Part, Q, dyadic_box, free_vars, solve, tier_timeout_ms, write_replay
from .cpph import CppFilter
from .oblig import env_from_model, prove_equal, reach

PID = "C06"

HELPER_MAIN = r"""
int main(int argc, char** argv) {
  vsym::init(argv[1]);
  constexpr int M = MDIM;
  S k = vsym::in("k");
  Eigen::Matrix<S, M, 1> z; Eigen::Matrix<S, M, M> Sinv;
  for (int i = 0; i < M; ++i) z(i, 0) = vsym::in("z" + std::to_string(i));
  for (int i = 0; i < M; ++i) for (int j = 0; j < M; ++j) Sinv(i, j) = vsym::in("s" + std::to_string(i) + std::to_string(j));
  bool removed = formak::innovation_filtering::edit::removeInnovation<M>(k, z, Sinv);
  vsym::out("removed", S(removed ? 1.0 : 0.0));
  vsym::finish();
}
"""


def helper_concrete(m, kk, z, S):
    d = build.workdir("c06r")
    try:
        exe = build.compile_driver(d, HELPER_MAIN, concrete=True, extra_flags=[f"-DMDIM={m}"], name="helper")
        ins = {"k": kk}
        for i in range(m):
            ins[f"z{i}"] = z[i]
            for j in range(m):
                ins[f"s{i}{j}"] = S[i][j]
        outs, _, _ = build.run_concrete(exe, d, ins)
    finally:
        build.cleanup(d)
    return outs["removed"] == 1.0


def task_helper(m, tier, seed):
    """(iv) formak::innovation_filtering::edit::removeInnovation<m>: 'true' leaf <=> specification decision."""
    from .c06 import float_decision_spec, spec_decision

    part = Part()
    part.program("innovation_filtering.h")
    part.fn("formak::innovation_filtering::edit::removeInnovation")
    key_base = f"cpp/removeInnovation/m={m}"
    d = build.workdir("c06")
    try:
        try:
            exe = build.compile_driver(d, HELPER_MAIN, extra_flags=[f"-DMDIM={m}"], name="helper")
        except build.BuildError as ex:
            part.harness_error(f"{key_base}: build failed: {ex.log[-600:]}")
            return part.d
        leaves, _ = build.run_symbolic(exe, d, "h")
    finally:
        build.cleanup(d)
    k = z3.Real("k")
    zs = [z3.Real(f"z{i}") for i in range(m)]
    Sinv = [[z3.Real(f"s{i}{j}") for j in range(m)] for i in range(m)]
    spec, _ = spec_decision(k, zs, Sinv, m)
    assumes = [k > 0]
    tmo = tier_timeout_ms(tier)
    part.d["paths"]["leaves"] += len(leaves)
    rej = [l for l in leaves if z3.is_rational_value(z3.simplify(l.out["removed"])) and z3.simplify(l.out["removed"]).numerator_as_long() == 1]
    acc = [l for l in leaves if l not in rej]
    cond_rej = z3.Or(*[l.pc_term() for l in rej]) if rej else z3.BoolVal(False)
    q = solve(assumes + [cond_rej != spec], tmo)
    part.record(q, f"{key_base}: returns true <=> z'S^-1 z > k*sqrt(2m)+m")
    if q.status == "sat":
        vars_ = free_vars([cond_rej, spec])
        cands = []
        q2 = solve(assumes + [cond_rej != spec] + dyadic_box(vars_, -4, 4, 8), 10000)
        if q2.status == "sat":
            cands.append(env_from_model(q2.model, vars_))
        cands.append(env_from_model(q.model, vars_))
        for e in cands:
            part.d["witnesses"] += 1
            kk = e["k"]
            zz = [e.get(f"z{i}", 0.0) for i in range(m)]
            SS = [[e.get(f"s{i}{j}", 0.0) for j in range(m)] for i in range(m)]
            got = helper_concrete(m, kk, zz, SS)
            want = float_decision_spec(kk, zz, SS)
            if got != want:
                path = write_replay(PID, {"key": key_base, "info": {"kind": "cpp-helper", "m": m}, "inputs": {"k": kk, "z": zz, "S_inv": SS}, "got": got, "want": want})
                part.violation(key_base, f"C++ removeInnovation<{m}> returns {got} but NIS > k*sqrt(2m)+m is {want} at k={kk}, z={zz}, S_inv={SS}", path)
                return part.d
        part.d["inconclusive"].append(key_base + " (sat only where floats cannot represent the boundary)")
    if not rej or not acc:
        part.harness_error(f"{key_base}: vacuity: accept/reject leaves = {len(acc)}/{len(rej)}")
    part.sample({"impl": "c++ helper", "m": m, "reject_condition": str(z3.simplify(cond_rej))[:200]})
    return part.d


def task_generated(p, key, k, tier, seed):
    """(v) generated sensor_model: reject leaf <=> specification, outputs = inputs; disabled -> no reject leaf.
    Also (python decision == generated C++ decision) through the shared specification."""
    from .c06 import spec_decision

    part = Part()
    part.program(p.id)
    part.fn("templates/sensor_model.hpp", "cpp.Config.ccode", "innovation_filtering.h")
    env = pyh.input_env(p)
    ss, rs = p.s_state(), p.s_readings(key)
    n, m = len(ss), len(rs)
    zin = {r: z3.Real(f"z_{key}_{r}") for r in rs}
    hspec, aH = pyh.spec_sensor(p, key, env)
    _, _, _, _, assumes = __import__("checks.c02", fromlist=["spec_pieces"]).spec_pieces(p, env)
    key_base = f"cpp/generated/{p.id}/{key}/k={k}"
    tmo = tier_timeout_ms(tier)
    try:
        cf = CppFilter(p, ekf=True, cse=True, k=k)
        cf.__enter__()
    except Exception as ex:
        part.harness_error(f"{key_base}: generation failed: {ex}")
        return part.d
    try:
        try:
            cf.compile_symbolic()
        except build.BuildError as ex:
            part.harness_error(f"{key_base}: build failed: {ex.log[-600:]}")
            return part.d
        leaves, _ = cf.run(f"update:{key}")
        part.d["paths"]["leaves"] += len(leaves)
        Pz = [[z3.Real(f"P_{min(a, b)}_{max(a, b)}") for b in ss] for a in ss]

        def is_identity(l):
            return all(l.out[f"x_{s}"].eq(env[s]) for s in ss) and all(l.out[f"P_{i}_{j}"].eq(Pz[i][j]) for i in range(n) for j in range(n))

        rej = [l for l in leaves if l.pc and is_identity(l)]
        acc = [l for l in leaves if l not in rej]
        if not k:
            ok = len(leaves) == 1 and not rej
            part.record(Q("unsat" if ok else "sat", None, 0.0, ""), f"{key_base}: filtering disabled => single path, no reject leaf")
            if not ok:
                e = {nm: 0.5 for nm in env}
                path = write_replay(PID, {"key": key_base + "/rejects-when-disabled", "info": {"kind": "cpp-generated", "program": p.id, "sensor": key, "k": k}, "inputs": e})
                part.violation(key_base + "/rejects-when-disabled", f"generated filter has {len(leaves)} paths although filtering is disabled", path)
            return part.d
        if len(rej) != 1 or len(acc) != 1:
            # decide concretely with a far-away reading: must leave the estimate unchanged
            rng = random.Random(seed)
            from .c07 import seeded_env, _cpp_inputs

            for _ in range(4):
                e = seeded_env(p, rng, far=True)
                outs, _, _ = cf.run_concrete(f"update:{key}", _cpp_inputs(p, e))
                changed = [s for s in ss if outs[f"x_{s}"] != e[s]]
                if changed:
                    path = write_replay(PID, {"key": key_base + "/discard-changes-estimate", "info": {"kind": "cpp-generated", "program": p.id, "sensor": key, "k": k}, "inputs": e, "outs": outs})
                    part.violation(key_base + "/discard-changes-estimate", f"generated C++ filter changed the estimate for a reading far beyond the threshold (k={k})", path)
                    return part.d
            part.harness_error(f"{key_base}: expected one reject (outputs identical to inputs) and one accept leaf, got {len(rej)}/{len(acc)} of {len(leaves)}")
            return part.d
        lr, la = rej[0], acc[0]
        cuts = lr.inverse_cuts()
        _, Xc = cuts[0]
        inn_spec = [zin[r] - hspec[r] for r in rs]
        spec, _ = spec_decision(None, inn_spec, Xc, m, const_k=float(k))
        q = solve(assumes + [lr.pc_term() != spec], tmo)
        part.record(q, f"{key_base}: reject path condition <=> NIS > k*sqrt(2m)+m")
        q2 = solve(assumes + [la.pc_term() != z3.Not(spec)], tmo)
        part.record(q2, f"{key_base}: accept path condition <=> not(NIS > k*sqrt(2m)+m)")
        if q.status == "sat" or q2.status == "sat":
            rng = random.Random(seed)
            from .c07 import seeded_env, _cpp_inputs

            found = False
            for far in (True, False, True, False, True, False):
                e = seeded_env(p, rng, far=far)
                outs, _, _ = cf.run_concrete(f"update:{key}", _cpp_inputs(p, e))
                unchanged = all(outs[f"x_{s}"] == e[s] for s in ss)
                # float NIS from the python-side spec
                from .c05 import spec_float

                sp = spec_float(p, key, e)
                inn = sp["innov"]
                nis = float(inn @ np.linalg.inv(sp["S"]) @ inn)
                want_reject = nis > k * math.sqrt(2 * m) + m
                part.d["witnesses"] += 1
                if unchanged != want_reject:
                    path = write_replay(PID, {"key": key_base + "/decision", "info": {"kind": "cpp-generated", "program": p.id, "sensor": key, "k": k}, "inputs": e, "nis": nis, "unchanged": unchanged})
                    part.violation(key_base + "/decision", f"generated C++ filter {'discarded' if unchanged else 'applied'} a reading with NIS={nis:.4g} (threshold {k * math.sqrt(2 * m) + m:.4g})", path)
                    found = True
                    break
            if not found:
                part.d["inconclusive"].append(key_base + ": decision differs in the abstraction; not reproduced")
        # innovation still recorded on the reject path
        for i, r in enumerate(rs):
            nm = f"innov_{key}_{r}"
            if nm not in lr.out:
                e = {k2: 0.5 for k2 in env}
                path = write_replay(PID, {"key": key_base + "/innovation-on-reject", "info": {"kind": "cpp-generated", "program": p.id, "sensor": key, "k": k}, "inputs": e})
                part.violation(key_base + "/innovation-on-reject", "generated C++ filter does not record the innovation of a discarded reading", path)
                break
            prove_equal(part, PID, f"{key_base}: innovation[{r}] recorded on the reject path == z-h", lr.out[nm], inn_spec[i], assumes + lr.pc, tmo, key=key_base + "/innovation-on-reject")
        reach(part, key_base + "/reject-reachable", assumes + lr.pc)
        reach(part, key_base + "/accept-reachable", assumes + la.pc)
        part.sample({"impl": "generated c++", "program": p.id, "sensor": key, "k": k, "m": m, "leaves": len(leaves)})
    finally:
        cf.__exit__(None, None, None)
    return part.d


def tasks(tier, seed):
    ms = [1, 2, 3] if tier == "quick" else [1, 2, 3, 4, 8]
    t = [(task_helper, (m, tier, seed)) for m in ms]
    if tier == "quick":
        t += [(task_generated, (CP.P3(), "two", 3.0, tier, seed)), (task_generated, (CP.P3(), "one", None, tier, seed)), (task_generated, (CP.P8(), "wide", 5.0, tier, seed))]
    else:
        for p in (CP.P1(), CP.P3(), CP.P8(), CP.P10()):
            for key in p.sensors:
                for k in (3.0, 0.5, None, 0.0):
                    t.append((task_generated, (p, key, k, tier, seed)))
    return t


def replay(r):
    from .c06 import float_decision_spec

    info = r["info"]
    if info["kind"] == "cpp-helper":
        i = r["inputs"]
        got = helper_concrete(info["m"], i["k"], i["z"], i["S_inv"])
        want = float_decision_spec(i["k"], i["z"], i["S_inv"])
        print("impl", got, "spec", want)
        if got != want:
            print("REPRODUCED")
            return 1
        print("not reproduced")
        return 0
    ps = {p.id: p for p in CP.all_fixed()}
    p = ps[info["program"]]
    key, k = info["sensor"], info["k"]
    from .c05 import spec_float
    from .c07 import _cpp_inputs

    e = r["inputs"]
    for rr in p.sensors[key]:
        e.setdefault(f"z_{key}_{rr}", 40.0)
    ss = p.s_state()
    for i, a in enumerate(ss):
        for b in ss[i:]:
            e.setdefault(f"P_{a}_{b}", 1.0 if a == b else 0.0)
    with CppFilter(p, ekf=True, cse=True, k=k) as cf:
        outs, _, notes = cf.run_concrete(f"update:{key}", _cpp_inputs(p, e))
    unchanged = all(outs[f"x_{s}"] == e[s] for s in ss)
    sp = spec_float(p, key, e)
    inn = sp["innov"]
    m = len(inn)
    nis = float(inn @ np.linalg.inv(sp["S"]) @ inn)
    want_reject = bool(k) and nis > k * math.sqrt(2 * m) + m
    print("unchanged", unchanged, "want_reject", want_reject, "nis", nis, notes)
    if unchanged != want_reject or any("innovation_missing" in nt for nt in notes):
        print("REPRODUCED")
        return 1
    print("not reproduced")
    return 0
