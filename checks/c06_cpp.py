"""C06, C++ side: removeInnovation<m> helper and the generated sensor_model's reject path (E2)."""
from __future__ import annotations

import math
import random

import numpy as np
import z3

from corpus import programs as CP
from engine.symreal.core import qval
from engine.vsym import build

from . import pyh
from .common import Part, Q, dyadic_box, free_vars, solve, tier_timeout_ms, write_replay
from .cpph import CppFilter
from .oblig import env_from_model, prove_equal, reach

PID = "C06"

HELPER_MAIN = r"""
int main(int argc, char** argv) {
  vsym::init(argv[1]);
  constexpr int M = MDIM;
  S k = vsym::in("k");
  Eigen::Matrix<S, M, 1> z; Eigen::Matrix<S, M, M> Sinv;
  for (int i = 0; i < M; ++i) z(i, 0) = vsym::in("z" + std::to_string(i));
  for (int i = 0; i < M; ++i) for (int j = 0; j < M; ++j) Sinv(i, j) = vsym::in("s" + std::to_string(i) + std::to_string(j));
  bool removed = formak::innovation_filtering::edit::removeInnovation<M>(k, z, Sinv);
  vsym::out("removed", S(removed ? 1.0 : 0.0));
  vsym::finish();
}
"""


def helper_concrete(m, kk, z, S):
    d = build.workdir("c06r")
    try:
        exe = build.compile_driver(d, HELPER_MAIN, concrete=True, extra_flags=[f"-DMDIM={m}"], name="helper")
        ins = {"k": kk}
        for i in range(m):
            ins[f"z{i}"] = z[i]
            for j in range(m):
                ins[f"s{i}{j}"] = S[i][j]
        outs, _, _ = build.run_concrete(exe, d, ins)
    finally:
        build.cleanup(d)
    return outs["removed"] == 1.0


def task_helper(m, tier, seed):
    """(iv) formak::innovation_filtering::edit::removeInnovation<m>: 'true' leaf <=> specification decision."""
    from .c06 import float_decision_spec, spec_decision

    part = Part()
    part.program("innovation_filtering.h")
    part.fn("formak::innovation_filtering::edit::removeInnovation")
    key_base = f"cpp/removeInnovation/m={m}"
    d = build.workdir("c06")
    try:
        try:
            exe = build.compile_driver(d, HELPER_MAIN, extra_flags=[f"-DMDIM={m}"], name="helper")
        except build.BuildError as ex:
            part.harness_error(f"{key_base}: build failed: {ex.log[-600:]}")
            return part.d
        leaves, _ = build.run_symbolic(exe, d, "h")
    finally:
        build.cleanup(d)
    k = z3.Real("k")
    zs = [z3.Real(f"z{i}") for i in range(m)]
    Sinv = [[z3.Real(f"s{i}{j}") for j in range(m)] for i in range(m)]
    spec, _ = spec_decision(k, zs, Sinv, m)
    assumes = [k > 0]
    tmo = tier_timeout_ms(tier)
    part.d["paths"]["leaves"] += len(leaves)
    rej = [l for l in leaves if z3.is_rational_value(z3.simplify(l.out["removed"])) and z3.simplify(l.out["removed"]).numerator_as_long() == 1]
    acc = [l for l in leaves if l not in rej]
    cond_rej = z3.Or(*[l.pc_term() for l in rej]) if rej else z3.BoolVal(False)
    q = solve(assumes + [cond_rej != spec], tmo)
    part.record(q, f"{key_base}: returns true <=> z'S^-1 z > k*sqrt(2m)+m")
    if q.status == "sat":
        vars_ = free_vars([cond_rej, spec])
        cands = []
        q2 = solve(assumes + [cond_rej != spec] + dyadic_box(vars_, -4, 4, 8), 10000)
        if q2.status == "sat":
            cands.append(env_from_model(q2.model, vars_))
        cands.append(env_from_model(q.model, vars_))
        for e in cands:
            part.d["witnesses"] += 1
            kk = e["k"]
            zz = [e.get(f"z{i}", 0.0) for i in range(m)]
            SS = [[e.get(f"s{i}{j}", 0.0) for j in range(m)] for i in range(m)]
            got = helper_concrete(m, kk, zz, SS)
            want = float_decision_spec(kk, zz, SS)
            if got != want:
                path = write_replay(PID, {"key": key_base, "info": {"kind": "cpp-helper", "m": m}, "inputs": {"k": kk, "z": zz, "S_inv": SS}, "got": got, "want": want})
                part.violation(key_base, f"C++ removeInnovation<{m}> returns {got} but NIS > k*sqrt(2m)+m is {want} at k={kk}, z={zz}, S_inv={SS}", path)
                return part.d
        part.d["inconclusive"].append(key_base + " (sat only where floats cannot represent the boundary)")
    if not rej or not acc:
        part.harness_error(f"{key_base}: vacuity: accept/reject leaves = {len(acc)}/{len(rej)}")
    part.sample({"impl": "c++ helper", "m": m, "reject_condition": str(z3.simplify(cond_rej))[:200]})
    return part.d


FP_MAIN = r"""
int main(int argc, char** argv) {
  vsym::init(argv[1]);
  constexpr int M = MDIM;
  S k = vsym::in("k");
  S n = vsym::in("n");
  // innovation e_1 and S^-1 = diag(n, 0, ...): the quadratic form is exactly n in floating point too
  Eigen::Matrix<S, M, 1> z = Eigen::Matrix<S, M, 1>::Zero();
  Eigen::Matrix<S, M, M> Sinv = Eigen::Matrix<S, M, M>::Zero();
  z(0, 0) = S(1.0);
  Sinv(0, 0) = n;
  bool removed = formak::innovation_filtering::edit::removeInnovation<M>(k, z, Sinv);
  vsym::out("removed", S(removed ? 1.0 : 0.0));
  vsym::finish();
}
"""


def fp_helper_concrete(m, kk, n):
    d = build.workdir("c06f")
    try:
        exe = build.compile_driver(d, FP_MAIN, concrete=True, extra_flags=[f"-DMDIM={m}"], name="fp")
        outs, _, _ = build.run_concrete(exe, d, {"k": kk, "n": n})
    finally:
        build.cleanup(d)
    return outs["removed"] == 1.0


def task_helper_fp(m, tier, seed):
    """Boundary clause in IEEE-754 double arithmetic (QF_FP): for every finite NIS value n and threshold k the C++
    helper decides exactly fl(n) > fl(fl(k*sqrt(2m)) + m), i.e. what the documented formula gives in doubles - also
    *at* and within an ulp of the boundary, where a real-arithmetic encoding cannot tell two algebraically
    equivalent rearrangements apart."""
    part = Part()
    part.program("innovation_filtering.h")
    part.fn("formak::innovation_filtering::edit::removeInnovation (binary64 semantics)")
    key_base = f"cpp/removeInnovation/fp/m={m}"
    d = build.workdir("c06f")
    try:
        try:
            exe = build.compile_driver(d, FP_MAIN, extra_flags=[f"-DMDIM={m}", "-DVSYM_FP"], name="fp")
        except build.BuildError as ex:
            part.harness_error(f"{key_base}: build failed: {ex.log[-600:]}")
            return part.d
        leaves, _ = build.run_symbolic(exe, d, "fp", fp=True)
    finally:
        build.cleanup(d)
    F = z3.Float64()
    k, n = z3.FP("k", F), z3.FP("n", F)
    rm = z3.RNE()
    c = z3.FPVal(math.sqrt(2 * m), F)
    spec = z3.fpGT(n, z3.fpAdd(rm, z3.fpMul(rm, k, c), z3.FPVal(float(m), F)))
    rng_ok = [z3.Not(z3.fpIsNaN(k)), z3.Not(z3.fpIsInf(k)), z3.Not(z3.fpIsNaN(n)), z3.Not(z3.fpIsInf(n)), z3.fpGT(k, z3.FPVal(0.0, F)), z3.fpLEQ(k, z3.FPVal(1024.0, F)), z3.fpGEQ(n, z3.FPVal(0.0, F)), z3.fpLEQ(n, z3.FPVal(1048576.0, F))]
    rej = [l for l in leaves if z3.simplify(l.out["removed"]).eq(z3.FPVal(1.0, F)) or str(z3.simplify(l.out["removed"])) in ("1", "1.0")]
    if not rej:
        rej = [l for l in leaves if "1" in str(z3.simplify(l.out["removed"]))[:4] and l.decisions.endswith("T")]
    cond = z3.Or(*[l.pc_term() for l in rej]) if rej else z3.BoolVal(False)
    part.d["paths"]["leaves"] += len(leaves)
    s_ = z3.Solver()
    s_.set("timeout", 120000 if tier == "quick" else 600000)
    s_.add(*rng_ok)
    s_.add(cond != spec)
    import time as _t

    t0 = _t.time()
    r = s_.check()
    q = Q(str(r) if str(r) in ("sat", "unsat") else "unknown", None, _t.time() - t0, "")
    part.record(q, f"{key_base}: decision == (n > fl(fl(k*sqrt(2m)) + m)) for all finite doubles 0 <= n <= 2^20, 0 < k <= 1024 (QF_FP)")
    if r == z3.sat:
        mdl = s_.model()

        def fv(x):
            v = mdl.eval(x, model_completion=True)
            return float(eval(str(z3.simplify(z3.fpToReal(v))).replace("?", ""))) if False else float(v.as_string()) if hasattr(v, "as_string") and "nan" not in v.as_string().lower() else float("nan")

        try:
            kk = float(mdl.eval(k, model_completion=True).as_decimal(40).replace("?", ""))
            nn = float(mdl.eval(n, model_completion=True).as_decimal(40).replace("?", ""))
        except Exception:
            kk = nn = None
        # exact doubles from the bit patterns
        try:
            import struct

            kk = struct.unpack("<d", struct.pack("<Q", mdl.eval(z3.fpToIEEEBV(k), model_completion=True).as_long()))[0]
            nn = struct.unpack("<d", struct.pack("<Q", mdl.eval(z3.fpToIEEEBV(n), model_completion=True).as_long()))[0]
        except Exception:
            pass
        part.d["witnesses"] += 1
        got = fp_helper_concrete(m, kk, nn)
        want = bool(nn > kk * math.sqrt(2 * m) + m)
        if got != want:
            path = write_replay(PID, {"key": key_base, "info": {"kind": "cpp-helper-fp", "m": m}, "inputs": {"k": kk, "n": nn}, "got": got, "want": want})
            part.violation(key_base, f"C++ removeInnovation<{m}> returns {got} for NIS={nn!r}, k={kk!r}, but NIS > k*sqrt(2m)+m evaluates to {want} in double arithmetic (boundary within an ulp)", path)
        else:
            part.d["inconclusive"].append(key_base + ": FP counterexample did not reproduce")
    if not rej or len(rej) == len(leaves):
        part.harness_error(f"{key_base}: vacuity: reject/accept leaves {len(rej)}/{len(leaves) - len(rej)}")
    part.sample({"impl": "c++ helper, binary64", "m": m, "leaves": len(leaves)})
    return part.d


def task_generated(p, key, k, tier, seed, config_form="auto"):
    """(v) generated sensor_model: reject leaf <=> specification, outputs = inputs; disabled -> no reject leaf.
    Also (python decision == generated C++ decision) through the shared specification."""
    from .c06 import spec_decision

    part = Part()
    part.program(p.id)
    part.fn("templates/sensor_model.hpp", "cpp.Config.ccode", "innovation_filtering.h")
    env = pyh.input_env(p)
    ss, rs = p.s_state(), p.s_readings(key)
    n, m = len(ss), len(rs)
    zin = {r: z3.Real(f"z_{key}_{r}") for r in rs}
    hspec, aH = pyh.spec_sensor(p, key, env)
    _, _, _, _, assumes = __import__("checks.c02", fromlist=["spec_pieces"]).spec_pieces(p, env)
    key_base = f"cpp/generated/{p.id}/{key}/k={k}" + ("" if config_form == "auto" else f"/config={config_form}")
    tmo = tier_timeout_ms(tier)
    try:
        cf = CppFilter(p, ekf=True, cse=True, k=k, config_form=config_form)
        cf.__enter__()
    except Exception as ex:
        part.harness_error(f"{key_base}: generation failed: {ex}")
        return part.d
    try:
        try:
            cf.compile_symbolic()
        except build.BuildError as ex:
            part.harness_error(f"{key_base}: build failed: {ex.log[-600:]}")
            return part.d
        leaves, _ = cf.run(f"update:{key}")
        part.d["paths"]["leaves"] += len(leaves)
        Pz = [[z3.Real(f"P_{min(a, b)}_{max(a, b)}") for b in ss] for a in ss]

        def is_identity(l):
            return all(l.out[f"x_{s}"].eq(env[s]) for s in ss) and all(l.out[f"P_{i}_{j}"].eq(Pz[i][j]) for i in range(n) for j in range(n))

        rej = [l for l in leaves if l.pc and is_identity(l)]
        acc = [l for l in leaves if l not in rej]
        if not k:
            ok = len(leaves) == 1 and not rej
            part.record(Q("unsat" if ok else "sat", None, 0.0, ""), f"{key_base}: filtering disabled => single path, no reject leaf")
            if not ok:
                e = {nm: 0.5 for nm in env}
                path = write_replay(PID, {"key": key_base + "/rejects-when-disabled", "info": {"kind": "cpp-generated", "program": p.id, "sensor": key, "k": k, "config_form": config_form}, "inputs": e})
                part.violation(key_base + "/rejects-when-disabled", f"generated filter has {len(leaves)} paths although filtering is disabled", path)
            return part.d
        if len(rej) != 1 or len(acc) != 1:
            # decide concretely with a far-away reading: must leave the estimate unchanged
            rng = random.Random(seed)
            from .c07 import seeded_env, _cpp_inputs

            for _ in range(4):
                e = seeded_env(p, rng, far=True)
                outs, _, _ = cf.run_concrete(f"update:{key}", _cpp_inputs(p, e))
                changed = [s for s in ss if outs[f"x_{s}"] != e[s]]
                if changed:
                    path = write_replay(PID, {"key": key_base + "/discard-changes-estimate", "info": {"kind": "cpp-generated", "program": p.id, "sensor": key, "k": k, "config_form": config_form}, "inputs": e, "outs": outs})
                    part.violation(key_base + "/discard-changes-estimate", f"generated C++ filter changed the estimate for a reading far beyond the threshold (k={k})", path)
                    return part.d
            part.harness_error(f"{key_base}: expected one reject (outputs identical to inputs) and one accept leaf, got {len(rej)}/{len(acc)} of {len(leaves)}")
            return part.d
        lr, la = rej[0], acc[0]
        cuts = lr.inverse_cuts()
        _, Xc = cuts[0]
        inn_spec = [zin[r] - hspec[r] for r in rs]
        spec, _ = spec_decision(None, inn_spec, Xc, m, const_k=float(k))
        q = solve(assumes + [lr.pc_term() != spec], tmo)
        part.record(q, f"{key_base}: reject path condition <=> NIS > k*sqrt(2m)+m")
        q2 = solve(assumes + [la.pc_term() != z3.Not(spec)], tmo)
        part.record(q2, f"{key_base}: accept path condition <=> not(NIS > k*sqrt(2m)+m)")
        if q.status == "sat" or q2.status == "sat":
            rng = random.Random(seed)
            from .c07 import seeded_env, _cpp_inputs

            found = False
            for far in (True, False, True, False, True, False):
                e = seeded_env(p, rng, far=far)
                outs, _, _ = cf.run_concrete(f"update:{key}", _cpp_inputs(p, e))
                unchanged = all(outs[f"x_{s}"] == e[s] for s in ss)
                # float NIS from the python-side spec
                from .c05 import spec_float

                sp = spec_float(p, key, e)
                inn = sp["innov"]
                nis = float(inn @ np.linalg.inv(sp["S"]) @ inn)
                want_reject = nis > k * math.sqrt(2 * m) + m
                part.d["witnesses"] += 1
                if unchanged != want_reject:
                    path = write_replay(PID, {"key": key_base + "/decision", "info": {"kind": "cpp-generated", "program": p.id, "sensor": key, "k": k, "config_form": config_form}, "inputs": e, "nis": nis, "unchanged": unchanged})
                    part.violation(key_base + "/decision", f"generated C++ filter {'discarded' if unchanged else 'applied'} a reading with NIS={nis:.4g} (threshold {k * math.sqrt(2 * m) + m:.4g})", path)
                    found = True
                    break
            if not found:
                part.d["inconclusive"].append(key_base + ": decision differs in the abstraction; not reproduced")
        # innovation still recorded on the reject path
        for i, r in enumerate(rs):
            nm = f"innov_{key}_{r}"
            if nm not in lr.out:
                e = {k2: 0.5 for k2 in env}
                path = write_replay(PID, {"key": key_base + "/innovation-on-reject", "info": {"kind": "cpp-generated", "program": p.id, "sensor": key, "k": k, "config_form": config_form}, "inputs": e})
                part.violation(key_base + "/innovation-on-reject", "generated C++ filter does not record the innovation of a discarded reading", path)
                break
            prove_equal(part, PID, f"{key_base}: innovation[{r}] recorded on the reject path == z-h", lr.out[nm], inn_spec[i], assumes + lr.pc, tmo, key=key_base + "/innovation-on-reject")
        reach(part, key_base + "/reject-reachable", assumes + lr.pc)
        reach(part, key_base + "/accept-reachable", assumes + la.pc)
        part.sample({"impl": "generated c++", "program": p.id, "sensor": key, "k": k, "m": m, "leaves": len(leaves)})
    finally:
        cf.__exit__(None, None, None)
    return part.d


def tasks(tier, seed):
    ms = [1, 2, 3] if tier == "quick" else [1, 2, 3, 4, 8]
    t = [(task_helper, (m, tier, seed)) for m in ms]
    t += [(task_helper_fp, (m, tier, seed)) for m in ([2, 3, 5] if tier == "quick" else [1, 2, 3, 4, 5, 6, 8])]
    if tier == "quick":
        t += [(task_generated, (CP.P3(), "two", 3.0, tier, seed)), (task_generated, (CP.P3(), "one", None, tier, seed, "dict")), (task_generated, (CP.P3(), "one", None, tier, seed, "object")), (task_generated, (CP.P8(), "wide", 5.0, tier, seed, "dict"))]
    else:
        for p in (CP.P1(), CP.P3(), CP.P8(), CP.P10()):
            for key in p.sensors:
                for k in (3.0, 0.5, None, 0.0):
                    t.append((task_generated, (p, key, k, tier, seed)))
    return t


def replay(r):
    from .c06 import float_decision_spec

    info = r["info"]
    if info["kind"] == "cpp-helper-fp":
        i = r["inputs"]
        got = fp_helper_concrete(info["m"], i["k"], i["n"])
        want = bool(i["n"] > i["k"] * math.sqrt(2 * info["m"]) + info["m"])
        print("impl", got, "double-arithmetic spec", want)
        print("REPRODUCED" if got != want else "not reproduced")
        return 1 if got != want else 0
    if info["kind"] == "cpp-helper":
        i = r["inputs"]
        got = helper_concrete(info["m"], i["k"], i["z"], i["S_inv"])
        want = float_decision_spec(i["k"], i["z"], i["S_inv"])
        print("impl", got, "spec", want)
        if got != want:
            print("REPRODUCED")
            return 1
        print("not reproduced")
        return 0
    ps = {p.id: p for p in CP.catalogue()}
    p = ps[info["program"]]
    key, k = info["sensor"], info["k"]
    from .c05 import spec_float
    from .c07 import _cpp_inputs

    e = r["inputs"]
    for rr in p.sensors[key]:
        e.setdefault(f"z_{key}_{rr}", 40.0)
    ss = p.s_state()
    for i, a in enumerate(ss):
        for b in ss[i:]:
            e.setdefault(f"P_{a}_{b}", 1.0 if a == b else 0.0)
    with CppFilter(p, ekf=True, cse=True, k=k, config_form=info.get("config_form", "auto")) as cf:
        outs, _, notes = cf.run_concrete(f"update:{key}", _cpp_inputs(p, e))
    unchanged = all(outs[f"x_{s}"] == e[s] for s in ss)
    sp = spec_float(p, key, e)
    inn = sp["innov"]
    m = len(inn)
    nis = float(inn @ np.linalg.inv(sp["S"]) @ inn)
    want_reject = bool(k) and nis > k * math.sqrt(2 * m) + m
    print("unchanged", unchanged, "want_reject", want_reject, "nis", nis, notes)
    if unchanged != want_reject or any("innovation_missing" in nt for nt in notes):
        print("REPRODUCED")
        return 1
    print("not reproduced")
    return 0
