"""C12 - every generated filter can be driven through the C++ managed runtime (E2; compile clause by the compiler)."""
from __future__ import annotations

import json
import math
import random

import z3

from corpus import programs as CP
from engine.vsym import build, drivers

from . import pyh
from .common import Part, Q, Report, approx_equal, finish, pmap, solve, solve_external, tier_timeout_ms, write_replay
from .cpph import CppFilter

PID = "C12"

MF_INCLUDES = ["#define private public", "#include <formak/runtime/ManagedFilter.h>", "#undef private"]


def steps_for(cur, target, max_dt):
    """Float mirror of the documented stepping (C10): full steps of +-max_dt, then the remainder if >= 1e-9."""
    md = max_dt if not cur > target else -max_dt
    k = int(abs(math.floor((target - cur) / md)))
    out = [md] * k
    it = cur + md * k
    if abs(target - it) >= 1e-9:
        out.append(target - it)
    return out


def lit(v):
    return repr(float(v))


def driver(p, max_dt, t0, readings, out_time, empty_vector=False):
    """readings: list of (timestamp, sensor key).  Managed run and by-hand run in one program."""
    L = [drivers.common_helpers(p, "gen", ekf=True)]
    L.append("using MF = formak::runtime::ManagedFilter<G::ExtendedKalmanFilter>;")
    L.append('static_assert(MF::compatible, "generated filter must pass the managed runtime compatibility check");')
    L.append("int main(int argc, char** argv) {")
    L.append("  vsym::init(argv[1]); std::string sc = argc > 2 ? argv[2] : \"\";")
    L.append("  G::StateAndVariance sv; sv.state = mkState(); sv.covariance = mkCov();")
    if p.control:
        L.append("  G::Control ctl = mkControl();")
    if p.calibration:
        L.append("  G::Calibration cal = mkCal();")
    for i, (ts, key) in enumerate(readings):
        T = drivers.tname(key)
        L.append(f"  G::{T}Options ro{i};")
        for r in p.sensors[key]:
            L.append(f"  ro{i}.{r} = IN(\"z{i}_{key}_{r}\");")
        L.append(f"  G::{T} rd{i}(ro{i});")
    # managed
    L.append(f"  MF mf(S({lit(t0)}), sv{', cal' if p.calibration else ''});")
    L.append("  static_assert(MF::runtime_compatible());")
    ctl = ", ctl" if p.control else ""
    if readings:
        L.append("  std::vector<MF::StampedReading> rds;")
        for i, (ts, key) in enumerate(readings):
            L.append(f"  rds.push_back(MF::wrap(S({lit(ts)}), rd{i}));")
        L.append(f"  G::StateAndVariance m = mf.tick(S({lit(out_time)}){ctl}, rds);")
    elif empty_vector:
        # "ticking with readings" when there is nothing to report: the readings overload with an empty vector
        L.append("  std::vector<MF::StampedReading> rds;")
        L.append(f"  G::StateAndVariance m = mf.tick(S({lit(out_time)}){ctl}, rds);")
    else:
        L.append(f"  G::StateAndVariance m = mf.tick(S({lit(out_time)}){ctl});")
    L.append("  outState(\"m_\", m.state); outCov(\"mP\", m.covariance);")
    L.append("  vsym::out(\"cfg_max_dt\", S(G::ExtendedKalmanFilter::Tag::max_dt_sec)); vsym::out(\"cfg_k\", S(G::cpp::Config::innovation_filtering));")
    L.append("  vsym::out(\"held_time\", mf._state.currentTime); outState(\"mh_\", mf._state.state.state); outCov(\"mhP\", mf._state.state.covariance);")
    # by hand, in the order C11 specifies
    L.append("  G::ExtendedKalmanFilter ekf; G::StateAndVariance cur = sv;")
    cal = ", cal" if p.calibration else ""
    t = t0
    for i, (ts, key) in enumerate(readings):
        for dt in steps_for(t, ts, max_dt):
            L.append(f"  cur = ekf.process_model(S({lit(dt)}), cur{cal}{ctl});")
        L.append(f"  cur = ekf.sensor_model(cur{cal}, rd{i});")
        t = ts
    L.append("  G::StateAndVariance held = cur;")
    for dt in steps_for(t, out_time, max_dt):
        L.append(f"  cur = ekf.process_model(S({lit(dt)}), cur{cal}{ctl});")
    L.append("  outState(\"h_\", cur.state); outCov(\"hP\", cur.covariance);")
    L.append(f"  vsym::out(\"hheld_time\", S({lit(t)})); outState(\"hh_\", held.state); outCov(\"hhP\", held.covariance);")
    L.append("  vsym::finish();\n}")
    return "\n".join(L) + "\n"


def schedules(p, max_dt):
    keys = p.s_sensors()
    md = max_dt
    out = [("no-readings-forward", 0.0, [], 2.5 * md), ("no-readings-backward", 1.0, [], 1.0 - 1.25 * md), ("no-readings-same-time", 0.5, [], 0.5), ("empty-readings-vector", 0.0, [], 1.5 * md), ("exact-multiple-forward", 0.0, [], 5 * md), ("exact-multiple-backward", 10.0, [], 10.0 - 10 * md)]
    if len(keys) >= 1:
        out.append(("one-reading", 0.0, [(1.5 * md, keys[0])], 2.25 * md))
        out.append(("reading-before-held-time", 1.0, [(1.0 - 0.5 * md, keys[0])], 1.0 + 0.75 * md))
    if len(keys) >= 2:
        out.append(("two-readings-out-of-order", 0.0, [(2.25 * md, keys[1]), (0.75 * md, keys[0])], 1.5 * md))
    elif len(keys) == 1:
        out.append(("two-readings-same-sensor", 0.0, [(0.5 * md, keys[0]), (0.5 * md, keys[0])], 0.25 * md))
    return out


def task(p, cse, k, max_dt, tier, seed):
    part = Part()
    part.program(p.id)
    part.fn("ManagedFilter<generated ExtendedKalmanFilter>::tick", "ManagedFilter::compatible", "ManagedFilter::wrap", "ast_fragments.EKF_Tag", "ast_fragments.StampedReadingBase", "ast_fragments.Reading.sensor_model", "cpp.compile_ekf")
    variant = f"control={int(bool(p.control))}/cal={int(bool(p.calibration))}/sensors={len(p.sensors)}"
    key_base = f"{p.id}/{variant}/k={k}/max_dt={max_dt}"
    info = {"program": p.id, "cse": cse, "k": k, "max_dt": max_dt}
    tmo = tier_timeout_ms(tier)
    for name, t0, readings, out_time in schedules(p, max_dt):
        body = driver(p, max_dt, t0, readings, out_time, empty_vector=(name == "empty-readings-vector"))
        sinfo = dict(info, schedule=name, t0=t0, readings=readings, out=out_time)
        try:
            cf = CppFilter(p, ekf=True, cse=cse, k=k, max_dt=max_dt, extra_body=body, extra_includes=MF_INCLUDES)
            cf.__enter__()
        except Exception as ex:
            part.harness_error(f"{key_base}: generation failed: {type(ex).__name__}: {ex}")
            return part.d
        try:
            try:
                cf.compile_symbolic()
            except build.BuildError as ex:
                try:
                    cf.compile_concrete()
                    part.harness_error(f"{key_base}/{name}: symbolic build fails, plain-double build succeeds: {ex.log[-600:]}")
                except build.BuildError as ex2:
                    first = [l for l in ex2.log.splitlines() if "error" in l][:1]
                    path = write_replay(PID, {"key": f"compile/{variant}", "info": dict(sinfo, kind="compile"), "inputs": {}, "compiler_log": ex2.log[-3000:]})
                    part.violation(f"compile/{variant}", f"ManagedFilter<generated filter> does not compile / is not compatible ({variant}, schedule {name}): {first}", path)
                return part.d
            part.record(Q("unsat", None, 0.0, ""), f"{key_base}/{name}: compatibility static_assert + tick instantiate and compile (decided by g++)")
            leaves, _ = cf.run("")
            assumes = []
            n_feasible = 0
            for l in leaves:
                # identify by-hand inverse cuts with the managed ones (same order); arguments must be equal first
                cuts = l.inverse_cuts()
                nc = len(cuts)
                subst = []
                ok_cuts = True
                if nc % 2 != 0:
                    # different numbers of updates on this path (e.g. one side rejected a reading): infeasible if filters agree
                    half = None
                else:
                    half = nc // 2
                pc = list(l.pc)
                if half:
                    for j in range(half):
                        a_arg, a_sym = cuts[j]
                        b_arg, b_sym = cuts[j + half]
                        m = len(a_arg)
                        for i1 in range(m):
                            for i2 in range(m):
                                x = z3.substitute(b_arg[i1][i2], *subst) if subst else b_arg[i1][i2]
                                y = z3.substitute(a_arg[i1][i2], *subst) if subst else a_arg[i1][i2]
                                if not x.eq(y) and ok_cuts:
                                    # nested terms that differ structurally: a killable external solver process decides
                                    if solve_external([z3.substitute(c, *subst) if subst else c for c in pc] + [x != y], 4.0) != "unsat":
                                        ok_cuts = False
                        for i1 in range(m):
                            for i2 in range(m):
                                subst.append((b_sym[i1][i2], a_sym[i1][i2]))
                pcs = [z3.substitute(c, *subst) if subst else c for c in pc]
                if pcs and solve(pcs, 5000).status == "unsat":
                    continue  # the two runs took different accept/reject decisions: infeasible
                if half is None:
                    part.harness_error(f"{key_base}/{name}: feasible leaf {l.decisions} with an odd number of inverse cuts")
                    continue
                n_feasible += 1
                # the configured hyper-parameters arrive in the generated filter exactly
                for nm, want in (("cfg_max_dt", float(max_dt)), ("cfg_k", float(k) if k else 0.0)):
                    got_t = z3.simplify(l.out[nm])
                    okv = z3.is_rational_value(got_t) and got_t.numerator_as_long() / got_t.denominator_as_long() == want
                    part.record(Q("unsat" if okv else "sat", None, 0.0, ""), f"{key_base}/{name}: generated {nm} == configured {want!r}")
                    if not okv:
                        path = write_replay(PID, {"key": f"config/{nm}", "info": dict(sinfo, kind="config", field=nm, want=want), "inputs": {}, "got": str(got_t)})
                        part.violation(f"config/{nm}", f"generated filter carries {nm}={got_t} but {want!r} was configured", path)
                pairs = []
                for nm, t in l.out.items():
                    if nm.startswith("m_"):
                        pairs.append((nm, t, l.out["h_" + nm[2:]]))
                    elif nm.startswith("mP"):
                        pairs.append((nm, t, l.out["hP" + nm[2:]]))
                    elif nm.startswith("mh_"):
                        pairs.append((nm, t, l.out["hh_" + nm[3:]]))
                    elif nm.startswith("mhP"):
                        pairs.append((nm, t, l.out["hhP" + nm[3:]]))
                    elif nm == "held_time":
                        pairs.append((nm, t, l.out["hheld_time"]))
                bad = None
                n_eq = 0
                pend = []
                for nm, a, b in pairs:
                    a2 = z3.substitute(a, *subst) if subst else a
                    b2 = z3.substitute(b, *subst) if subst else b
                    if a2.eq(b2):
                        part.d["queries"]["unsat"] += 1
                        n_eq += 1
                    else:
                        pend.append((nm, a2, b2))
                reproduced = False
                if pend or not ok_cuts:
                    # terms are not structurally identical: look for a concrete disagreement first (cheap, and it is the replay)
                    rng = random.Random(seed)
                    for _ in range(4):
                        e = concrete_inputs(p, readings, rng)
                        outs, _, _ = cf.run_concrete("", e)
                        part.d["witnesses"] += 1
                        diffs = compare_outs(outs)
                        if diffs:
                            path = write_replay(PID, {"key": f"tick-vs-by-hand/{variant}/{name}", "info": dict(sinfo, kind="value"), "inputs": e, "diffs": diffs[:6]})
                            part.violation(f"tick-vs-by-hand/{variant}/{name}", f"managed tick differs from the by-hand call sequence ({variant}, schedule {name}, max_dt={max_dt}): {diffs[:3]}", path)
                            reproduced = True
                            break
                if pend and not reproduced:
                    budget = 6
                    for nm, a2, b2 in pend:
                        if budget <= 0:
                            part.d["queries"]["unknown"] += 1
                            part.d["inconclusive"].append(f"{key_base}/{name}: {nm} (solver budget for this leaf used up)")
                            continue
                        st_ = solve_external(pcs + [a2 != b2], 8.0)
                        part.d["queries"][st_] += 1
                        if st_ == "unsat":
                            n_eq += 1
                        else:
                            budget -= 1
                            part.d["inconclusive"].append(f"{key_base}/{name}: {nm} ({st_}; no concrete disagreement found)")
                elif pend:
                    part.d["queries"]["sat"] += len(pend)
                part.d["obligations"].append({"name": f"{key_base}/{name}[{l.decisions or '-'}]: managed tick == by-hand calls ({len(pairs)} named outputs)", "status": "unsat" if n_eq == len(pairs) else "mixed", "s": 0})
            part.d["paths"]["leaves"] += n_feasible
            if n_feasible == 0:
                part.harness_error(f"{key_base}/{name}: no feasible leaf")
            part.sample({"program": p.id, "variant": variant, "schedule": name, "t0": t0, "readings": readings, "out": out_time, "by_hand_steps": [steps_for(t0 if not readings else readings[-1][0], out_time, max_dt)], "feasible_leaves": n_feasible})
        finally:
            cf.__exit__(None, None, None)
    return part.d


def task_compile_only(p, cse, k, max_dt, tier, seed):
    """Compile clause on models whose symbolic exploration would fork too widely (switching functions): the generated
    filter is wrapped in ManagedFilter and ticked with and without readings in a plain-double translation unit; g++ decides."""
    part = Part()
    part.program(p.id)
    part.fn("ManagedFilter<generated ExtendedKalmanFilter>::tick", "ManagedFilter::compatible", "cpp.compile_ekf", "cpp.BasicBlock.compile")
    variant = f"control={int(bool(p.control))}/cal={int(bool(p.calibration))}/sensors={len(p.sensors)}"
    key_base = f"{p.id}/{variant}/k={k}/max_dt={max_dt}/compile-only"
    info = {"program": p.id, "cse": cse, "k": k, "max_dt": max_dt}
    rng = random.Random(seed + 12)
    for name, t0, readings, out_time in schedules(p, max_dt)[:4]:
        body = driver(p, max_dt, t0, readings, out_time, empty_vector=(name == "empty-readings-vector"))
        sinfo = dict(info, schedule=name, t0=t0, readings=readings, out=out_time)
        try:
            cf = CppFilter(p, ekf=True, cse=cse, k=k, max_dt=max_dt, extra_body=body, extra_includes=MF_INCLUDES)
            cf.__enter__()
        except Exception as ex:
            part.harness_error(f"{key_base}: generation failed: {type(ex).__name__}: {ex}")
            return part.d
        try:
            try:
                cf.compile_concrete()
            except build.BuildError as ex2:
                first = [l for l in ex2.log.splitlines() if "error" in l][:1]
                path = write_replay(PID, {"key": f"compile/{variant}", "info": dict(sinfo, kind="compile"), "inputs": {}, "compiler_log": ex2.log[-3000:]})
                part.violation(f"compile/{variant}", f"ManagedFilter<generated filter> does not compile / is not compatible ({p.id}, {variant}, schedule {name}): {first}", path)
                return part.d
            part.record(Q("unsat", None, 0.0, ""), f"{key_base}/{name}: compatibility static_assert + tick instantiate and compile (decided by g++)")
            # concrete agreement of the managed tick with the by-hand sequence at seeded points (replay target)
            for _ in range(2):
                e = concrete_inputs(p, readings, rng)
                try:
                    outs, _, _ = cf.run_concrete("", e)
                except build.BuildError as ex:
                    part.d["inconclusive"].append(f"{key_base}/{name}: concrete driver failed: {str(ex)[:120]}")
                    break
                diffs = compare_outs(outs)
                part.record(Q("sat" if diffs else "unsat", None, 0.0, ""), f"{key_base}/{name}: managed tick == by-hand sequence at a seeded point (concrete)")
                if diffs:
                    path = write_replay(PID, {"key": f"tick-vs-by-hand/{variant}/{name}", "info": dict(sinfo, kind="tick"), "inputs": e, "diffs": diffs[:5]})
                    part.violation(f"tick-vs-by-hand/{variant}/{name}", f"managed tick differs from the by-hand call sequence ({p.id}, {name}) at {e}: {diffs[:2]}", path)
                    return part.d
        finally:
            cf.__exit__(None, None, None)
    return part.d


def concrete_inputs(p, readings, rng):
    e = {nm: rng.randint(-8, 8) / 8.0 for nm in pyh.input_env(p)}
    e.update(pyh.seeded_cov_env(p.state, rng))
    for i, (ts, key) in enumerate(readings):
        for r in p.sensors[key]:
            e[f"z{i}_{key}_{r}"] = rng.randint(-8, 8) / 8.0
    return e


def compare_outs(outs):
    diffs = []
    for nm, v in outs.items():
        other = None
        if nm.startswith("m_"):
            other = "h_" + nm[2:]
        elif nm.startswith("mP"):
            other = "hP" + nm[2:]
        elif nm.startswith("mh_"):
            other = "hh_" + nm[3:]
        elif nm.startswith("mhP"):
            other = "hhP" + nm[3:]
        elif nm == "held_time":
            other = "hheld_time"
        if other and other in outs and not approx_equal(v, outs[other], rel=1e-9, abs_=1e-12):
            diffs.append((nm, v, outs[other]))
    return diffs


def configs(tier, seed):
    base = CP.P3()
    out = []
    if tier == "quick":
        out.append((base, True, None, 0.1))
        out.append((base.restrict(control=False, calibration=False), True, None, 0.05))
        out.append((base.restrict(control=True, calibration=False, sensors=["one"]), True, None, 0.1))
        out.append((base.restrict(control=False, calibration=True, sensors=[]), True, None, 1.0 / 3.0))
        return out
    for ctl in (True, False):
        for cal in (True, False):
            for sens in ([], ["one"], None):
                out.append((base.restrict(control=ctl, calibration=cal, sensors=sens), True, None, 0.1))
    out.append((base, False, 4.0, 0.1))
    out.append((base, True, None, 0.05))
    out.append((CP.P10(), True, None, 0.25))
    out.append((CP.P10().restrict(control=False), True, None, 1.0 / 3.0))
    out.append((CP.P1(), True, 5.0, 0.1))
    out.append((CP.P8(), True, None, 0.5))
    out.append((CP.P1(), True, None, 2.5e-7))
    out.append((CP.P8(), True, 0.7, 1.0 / 30.0))
    return out


def _dispatch(fn, args):
    return fn(*args)


def run(tier, seed):
    rep = Report(PID, tier, seed, "other")
    cfgs = configs(tier, seed)
    co = [(CP.P18(), True, None, 0.1), (CP.P18().restrict(control=False), True, 4.0, 0.25)]
    tasks = [(task, (p, cse, k, md, tier, seed)) for p, cse, k, md in cfgs] + [(task_compile_only, (p, cse, k, md, tier, seed)) for p, cse, k, md in co]
    from . import cfgrb

    tasks += [(cfgrb.task, (PID, *c, tier, seed)) for c in cfgrb.combos(tier)]
    for d in pmap(_dispatch, tasks):
        rep.merge(d)
    rep.bounds = {"configurations": [f"{p.id}/k={k}/max_dt={md}" for p, _, k, md in cfgs], "timestamps": "concrete schedules (0, 1, 2 full steps + remainder, forwards/backwards/same time, readings before/after the held time, out of order); all times are decided symbolically in C10/C11", "values": "all real states, covariances, controls, calibrations, readings", "compile_clause": "decided by g++ -std=c++17 (symbolic and plain-double builds), not by SMT"}
    rep.assumptions = ["stand-in Eigen/Dense", "`#define private public` around ManagedFilter.h in the harness translation unit only (to read the held state)", "by-hand step schedule computed by a float mirror of the documented stepping rule"]
    return finish(
        rep,
        explanation="For each control x calibration combination and 0..2 sensors the generated filter is instantiated in the real ManagedFilter.h (static_assert compatible; all tick overloads that apply), ticked with and without wrapped readings on symbolic values, and next to it process_model/sensor_model are called by hand in the order C11 specifies; every named output and the held state are proved equal (term identity after identifying the inverse cut-points, otherwise z3).",
        rule="one aggregated obligation per (configuration, schedule, feasible leaf); plus one compile obligation per (configuration, schedule)",
        trusted_base=["g++ 12 for the compile clause", "z3 5.1", "engine/vsym"],
    )


def replay(path):
    with open(path) as f:
        r = json.load(f)
    if r.get("info", {}).get("kind") == "cfgrb":
        from . import cfgrb

        return cfgrb.replay(PID, r["info"])
    info = r["info"]
    ps = {}
    for p, _, _, _ in configs("thorough", 0) + configs("quick", 0):
        ps[p.id] = p
    for p in (CP.P18(), CP.P18().restrict(control=False)):
        ps[p.id] = p
    p = ps[info["program"]]
    readings = [tuple(x) for x in info["readings"]]
    body = driver(p, info["max_dt"], info["t0"], readings, info["out"], empty_vector=(info.get("schedule") == "empty-readings-vector"))
    with CppFilter(p, ekf=True, cse=info["cse"], k=info["k"], max_dt=info["max_dt"], extra_body=body, extra_includes=MF_INCLUDES) as cf:
        try:
            cf.compile_concrete()
        except build.BuildError as ex:
            print("REPRODUCED: does not compile\n", ex.log[-1500:])
            return 1
        if info["kind"] == "compile":
            print("not reproduced")
            return 0
        if info["kind"] == "config":
            e = concrete_inputs(p, readings, random.Random(0))
            outs, _, _ = cf.run_concrete("", e)
            print(info["field"], outs[info["field"]], "configured", info["want"])
            if outs[info["field"]] != info["want"]:
                print("REPRODUCED")
                return 1
            print("not reproduced")
            return 0
        outs, _, _ = cf.run_concrete("", r["inputs"])
    diffs = compare_outs(outs)
    print(diffs)
    if diffs:
        print("REPRODUCED")
        return 1
    print("not reproduced")
    return 0
