"""C18 - the design workflow follows its declared transitions and selects from the grid (E3 CrossHair + E1 grid stub)."""
from __future__ import annotations

import dataclasses
import importlib.util
import json
import os
import re
import subprocess
import sys
import time

import numpy as np
import z3

from corpus import programs as CP
from engine.symreal.core import decide, explore

from .common import REPO, VERIF, Part, Q, Report, finish, pmap, quiet, write_replay

PID = "C18"
COND = os.path.join(VERIF, "engine", "ch", "c18_conditions.py")


def load_conditions():
    spec = importlib.util.spec_from_file_location("c18_conditions", COND)
    mod = importlib.util.module_from_spec(spec)
    spec.loader.exec_module(mod)
    return mod


ENUM_SCRIPT = r"""
import importlib.util, itertools, sys
spec = importlib.util.spec_from_file_location('c18_conditions', sys.argv[1])
mod = importlib.util.module_from_spec(spec); spec.loader.exec_module(mod)
name = sys.argv[2]
fn = getattr(mod, name)
import inspect
params = list(inspect.signature(fn).parameters.values())
doms = []
for p in params:
    if p.annotation is int:
        doms.append([0, 1, 2])
    elif p.annotation is mod.StateId:
        doms.append(list(mod.StateId))
    else:
        sys.exit(3)
calls = []
for combo in itertools.product(*doms):
    calls.append(f"{name}({', '.join(repr(c) if not isinstance(c, mod.StateId) else 'StateId.' + c.name for c in combo)})")
    try:
        ok = fn(*combo)
    except Exception as ex:
        ok = False
    if ok is not True:
        print('\n'.join(calls)); sys.exit(1)
sys.exit(0)
"""


def enumerate_condition(name):
    """Run a condition over its (finite) argument space in ONE fresh interpreter; returns the list of calls up to and
    including the first failing one, or None."""
    r = subprocess.run([sys.executable, "-c", ENUM_SCRIPT, COND, name], capture_output=True, text=True, cwd=REPO, timeout=600)
    if r.returncode == 1:
        return [l for l in r.stdout.splitlines() if l.startswith(name)]
    return None


def crosshair_task(tier, seed):
    part = Part()
    part.program("formak.ui_state_machine")
    part.fn("ui_state_machine.StateMachineState.search", "ui_state_machine.StateMachineState.history", "ui_state_machine.DesignManager.symbolic_model", "ui_state_machine.SymbolicModelState.fit_model", "ui_state_machine.FitModelState.__init__", "ui_state_machine.FitModelState._fit_model_impl (minimum-sample guard)")
    tmo = 30 if tier == "quick" else 120
    env = dict(os.environ)
    t0 = time.time()
    r = subprocess.run([sys.executable, "-m", "crosshair", "check", "--report_all", "--per_condition_timeout", str(tmo), COND], capture_output=True, text=True, env=env, cwd=REPO, timeout=3600)
    dt = time.time() - t0
    src = open(COND).read().splitlines()

    def fn_at(line_no):
        for i in range(line_no - 1, -1, -1):
            m = re.match(r"def (\w+)\(", src[i])
            if m:
                return m.group(1)
        return f"line{line_no}"

    seen = {}
    for line in (r.stdout + r.stderr).splitlines():
        m = re.match(r".*c18_conditions\.py:(\d+): (info|error): (.*)$", line)
        if not m:
            continue
        fn = fn_at(int(m.group(1)))
        seen[fn] = (m.group(2), m.group(3))
    mod = load_conditions()
    names = [n for n in dir(mod) if n.startswith(("c_", "t_")) and callable(getattr(mod, n))]
    for n in sorted(names):
        if n not in seen:
            part.d["queries"]["unknown"] += 1
            part.d["inconclusive"].append(f"crosshair: no verdict for {n}")
            continue
        kind, msg = seen[n]
        if n.startswith("c_"):
            if kind == "info" and "Confirmed over all paths" in msg:
                part.record(Q("unsat", None, dt / max(1, len(names)), ""), f"crosshair {n}: confirmed over all paths")
            elif kind == "error" and "false when calling" in msg:
                call = msg.split("false when calling", 1)[1].split("(which returns")[0].strip()
                # replay concretely, outside CrossHair
                try:
                    val = eval(call, vars(mod))
                except Exception as ex:
                    val = f"{type(ex).__name__}: {ex}"
                part.d["queries"]["sat"] += 1
                part.d["witnesses"] += 1
                if val is not True:
                    path = write_replay(PID, {"key": f"workflow/{n}", "info": {"kind": "crosshair", "condition": n, "call": call}, "inputs": {}, "result": repr(val)})
                    part.violation(f"workflow/{n}", f"{n} fails for {call} (returns {val!r})", path)
                else:
                    # the failure may depend on what was executed before (state kept between calls): enumerate the
                    # condition's finite argument space in one fresh interpreter and report the first failing call
                    hist = enumerate_condition(n)
                    if hist is not None:
                        path = write_replay(PID, {"key": f"workflow/{n}", "info": {"kind": "crosshair-sequence", "condition": n}, "inputs": {}, "calls": hist})
                        part.violation(f"workflow/{n}", f"{n} fails for {hist[-1]} after the calls {hist[:-1]} in the same process (state carried between calls)", path)
                    else:
                        part.d["inconclusive"].append(f"crosshair {n}: counterexample {call} does not reproduce")
            elif kind == "error":
                # an exception escaping the condition: replay
                m2 = re.match(r"(\w+): (.*) when calling (.*)$", msg)
                call = m2.group(3) if m2 else None
                reproduced = False
                if call:
                    try:
                        eval(call.split(" (which")[0], vars(mod))
                    except Exception as ex:
                        reproduced = True
                        path = write_replay(PID, {"key": f"workflow/{n}", "info": {"kind": "crosshair", "condition": n, "call": call}, "inputs": {}, "result": f"{type(ex).__name__}: {ex}"})
                        part.violation(f"workflow/{n}", f"{n} raises {type(ex).__name__}: {ex} for {call}", path)
                part.d["queries"]["sat"] += 1
                if not reproduced:
                    part.d["inconclusive"].append(f"crosshair {n}: {msg[:120]} (not reproduced)")
            else:
                part.d["queries"]["unknown"] += 1
                part.d["inconclusive"].append(f"crosshair {n}: {msg[:120]}")
        else:  # reachability twin: must be refuted (unless its condition itself failed: then the twin says nothing)
            cond = "c_" + n[2:]
            cond_confirmed = cond in seen and seen[cond][0] == "info" and "Confirmed over all paths" in seen[cond][1]
            if kind == "error" and "false when calling" in msg:
                part.record(Q("unsat", None, 0.0, ""), f"crosshair twin {n}: refuted (condition body reachable, checker alive)")
            elif cond_confirmed:
                part.harness_error(f"reachability twin {n} was not refuted although {cond} was confirmed (vacuous?): {kind}: {msg[:160]}")
            else:
                part.d["inconclusive"].append(f"crosshair twin {n}: not refuted, but {cond} itself is not confirmed")
    part.extra("crosshair_wall_s", round(dt, 1))
    part.sample({"tool": "crosshair 0.0.110", "per_condition_timeout": tmo, "verdicts": {k: v[1][:60] for k, v in sorted(seen.items())}})
    return part.d


# ------------------------------------------------------------------------------------------- grid clause


def grid_task(grid_keys, tier, seed, single=None, container="list"):
    """GridSearchCV replaced by its contract: picks an ARBITRARY point of param_grid (forked index per key),
    set_params(**point) on a clone, exposes it as best_estimator_."""
    part = Part()
    p = CP.P2()
    part.program(p.id)
    part.fn("ui_state_machine.FitModelState._fit_model_impl", "ui_state_machine.FitModelState.export_python", "ui_state_machine.ConfigView", "python.SklearnEKFAdapter.set_params", "python.SklearnEKFAdapter.export_python")
    import formak.ui_state_machine as sm
    from formak import python
    from sklearn.base import clone

    st = p.symtab()
    space_all = {
        "innovation_filtering": [None, 3.0],
        "max_dt_sec": [0.05, 0.25],
        "common_subexpression_elimination": [False, True],
    }
    for k_, v_ in (single or {}).items():
        space_all[k_] = list(v_)
    base_space = {
        "process_noise": [p.sympy_process_noise()],
        "sensor_models": [p.sympy_sensors()],
        "sensor_noises": [p.sympy_sensor_noise()],
        "calibration_map": [{}],
    }
    chosen = {}

    class GridStub:
        def __init__(self, estimator, param_grid, **kw):
            self.estimator, self.param_grid = estimator, param_grid

        def fit(self, X, y=None):
            point = {}
            for key in sorted(self.param_grid):
                vals = self.param_grid[key]
                idx = 0
                for i in range(1, len(vals)):
                    if decide(z3.Bool(f"pick_{key}_{i}")):
                        idx = i
                        break
                point[key] = vals[idx]
            chosen.clear()
            chosen.update(point)
            est = clone(self.estimator)
            est.set_params(**point)
            self.best_estimator_ = est
            self.cv_results_ = {"mean_test_score": [0.0], "params": [point], "mean_train_score": [0.0]}
            return self

    def harness():
        saved = sm.GridSearchCV
        sm.GridSearchCV = GridStub
        try:
            with quiet():
                space = dict(base_space)
                for k_ in grid_keys:
                    # candidates may be given in any sequence form scikit-learn's ParameterGrid accepts
                    if container == "ndarray" and all(isinstance(v_, float) for v_ in space_all[k_]):
                        space[k_] = np.array(space_all[k_])
                    elif container in ("tuple", "ndarray"):
                        space[k_] = tuple(space_all[k_])
                    else:
                        space[k_] = list(space_all[k_])
                dm = sm.DesignManager(name="d")
                s1 = dm.symbolic_model(model=p.ui_model())
                data = [[0.1 * i, 0.2 * i] for i in range(6)]
                s2 = s1.fit_model(parameter_space=space, data=data)
                ekf = s2.export_python()
                return dict(chosen), ekf.config, s2.history()
        finally:
            sm.GridSearchCV = saved

    leaves = explore(harness, config={"prune": False})
    part.leaves(leaves)
    key_base = "grid/" + "+".join(grid_keys or ["defaults-only"]) + ("/single:" + ",".join(f"{k_}={v_}" for k_, v_ in single.items()) if single else "") + ("" if container == "list" else f"/candidates-as-{container}")
    defaults = python.Config()
    points = set()
    for l in leaves:
        if l.status != "ok":
            path = write_replay(PID, {"key": f"{key_base}/raises", "info": {"kind": "grid", "grid_keys": list(grid_keys), "decisions": l.decisions, "single": single, "container": container}, "inputs": {}, "exception": repr(l.value)[:300]})
            part.violation(f"{key_base}/raises", f"fit_model/export raises {type(l.value).__name__}: {str(l.value)[:160]} for a grid over {grid_keys}", path)
            continue
        point, cfg, hist = l.value
        points.add(tuple(sorted((k_, repr(np.asarray(v).tolist()) if not isinstance(v, (bool, type(None))) else repr(v)) for k_, v in point.items() if k_ in space_all)))
        ok = True
        why = []
        for k_ in space_all:
            if k_ in grid_keys:
                # a single-valued entry may legitimately not be handed to the search at all: its value is still "selected"
                want = point[k_] if k_ in point else space_all[k_][0]
                point.setdefault(k_, want)
            else:
                want = getattr(defaults, k_)
            got = getattr(cfg, k_)

            def scalar(v):
                return v is None or isinstance(v, (bool, int, float, np.floating, np.integer, np.bool_))

            if not scalar(got):
                ok = False
                why.append(f"{k_}: exported {got!r} is not a single hyper-parameter value (selected {want!r})")
                continue
            if not scalar(want) or got != want or type(got) is not type(want) and not (isinstance(got, (int, float)) and isinstance(want, (int, float))):
                ok = False
                why.append(f"{k_}: exported {got!r}, selected {want!r}")
            if k_ in grid_keys and not (scalar(point[k_]) and any(point[k_] == v_ and (point[k_] is None) == (v_ is None) for v_ in space_all[k_])):
                ok = False
                why.append(f"{k_}: {point[k_]!r} is not in the supplied grid")
        ok_hist = [h.name for h in hist] == ["Start", "Symbolic_Model", "Fit_Model"]
        part.record(Q("unsat" if (ok and ok_hist) else "sat", None, 0.0, ""), f"{key_base}: selected point {dict((k_, point[k_]) for k_ in grid_keys)} -> exported filter carries exactly these hyper-parameters (defaults elsewhere); history Start>Symbolic_Model>Fit_Model")
        if not ok or not ok_hist:
            path = write_replay(PID, {"key": f"{key_base}/export", "info": {"kind": "grid", "grid_keys": list(grid_keys), "decisions": l.decisions, "single": single, "container": container}, "inputs": {}, "why": why, "history": [h.name for h in hist]})
            part.violation(f"{key_base}/export", f"exported filter does not carry the selected hyper-parameters: {why or hist}", path)
    want_points = 1
    for k_ in grid_keys:
        want_points *= len(space_all[k_])
    if len(points) != want_points:
        part.harness_error(f"{key_base}: explored {len(points)} grid points, expected {want_points}")
    part.sample({"grid_keys": list(grid_keys), "points_explored": len(points)})
    return part.d


def _dispatch(fn, args):
    return fn(*args)


def run(tier, seed):
    rep = Report(PID, tier, seed, "other")
    tasks = [(crosshair_task, (tier, seed)), (grid_task, ((), tier, seed)), (grid_task, (("innovation_filtering",), tier, seed)), (grid_task, (("max_dt_sec", "common_subexpression_elimination"), tier, seed))]
    # single-valued grids (one of them: filtering explicitly disabled)
    tasks.append((grid_task, (("innovation_filtering", "max_dt_sec"), tier, seed, {"innovation_filtering": [None], "max_dt_sec": [0.25]})))
    tasks.append((grid_task, (("innovation_filtering", "common_subexpression_elimination"), tier, seed, {"innovation_filtering": [0.0], "common_subexpression_elimination": [False]})))
    tasks.append((grid_task, (("max_dt_sec", "common_subexpression_elimination"), tier, seed, None, "ndarray")))
    if tier != "quick":
        tasks.append((grid_task, (("innovation_filtering", "max_dt_sec", "common_subexpression_elimination"), tier, seed)))
        tasks.append((grid_task, (("max_dt_sec",), tier, seed)))
    for d in pmap(_dispatch, tasks):
        rep.merge(d)
    rep.bounds = {"crosshair": "symbolic (start in 0..2, target: StateId | int | str of length <= 3), symbolic previous history of length <= 4, symbolic data list of length <= 6; per-condition timeout 30 s (quick) / 120 s (thorough)", "grid": "<= 2 values per key over the Config-level hyper-parameters innovation_filtering, max_dt_sec, common_subexpression_elimination; noise maps not compared after selection (refitting retunes them: C17)", "outside": "what scikit-learn's real GridSearchCV selects; extra_validation=True; python_modules"}
    rep.assumptions = ["FitModelState._fit_model_impl replaced by a no-op for the transition/history conditions", "train_test_split replaced by a sentinel for the minimum-sample guard", "GridSearchCV replaced by its contract (arbitrary grid point, set_params on a clone)"]
    return finish(
        rep,
        explanation="CrossHair symbolically executes the real workflow classes: search from every state for a symbolic target returns a shortest path along declared transitions ending in the target, raises ValueError for unreachable/non-StateId targets; each transition appends its state id to an arbitrary symbolic previous history; fitting raises ModelFitError iff fewer than 3 samples. Every condition has a reachability twin that must be refuted. Grid clause: with GridSearchCV as a nondeterministic stub every grid point is explored and the exported filter's configuration equals the selected point (defaults elsewhere).",
        rule="one obligation per CrossHair condition / twin and per (grid, selected point)",
        trusted_base=["crosshair-tool 0.0.110 + z3", "engine/symreal (fork exploration for the grid stub)"],
    )


def replay(path):
    with open(path) as f:
        r = json.load(f)
    info = r["info"]
    if info["kind"] == "crosshair-sequence":
        hist = enumerate_condition(info["condition"])
        print(hist)
        print("REPRODUCED" if hist else "not reproduced")
        return 1 if hist else 0
    if info["kind"] == "crosshair":
        mod = load_conditions()
        try:
            val = eval(info["call"].split(" (which")[0], vars(mod))
        except Exception as ex:
            print(f"REPRODUCED: raises {type(ex).__name__}: {ex}")
            return 1
        print(info["call"], "->", val)
        if val is not True:
            print("REPRODUCED")
            return 1
        print("not reproduced")
        return 0
    d = grid_task(tuple(info["grid_keys"]), "quick", 0, info.get("single"), info.get("container", "list"))
    print(d["violations"])
    return 1 if d["violations"] else 0
