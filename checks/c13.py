"""C13 - values are bound by name, never by position or spelling (E1 + E2; names enumerated, values symbolic)."""
from __future__ import annotations

import itertools
import json
import random

import numpy as np
import z3

from corpus import programs as CP
from engine.symreal import expr as X
from engine.symreal.core import SymReal, explore, lift
from engine.symreal.shim import installed
from engine.vsym import build

from . import pyh
from .common import Part, Q, Report, approx_equal, finish, pmap, quiet, solve, tier_timeout_ms, write_replay
from .cpph import CppFilter
from .oblig import prove_equal, reach

PID = "C13"

HARD = ["a", "B", "_c", "a1", "a_1", "aa", "A", "a10", "a2", "Z", "z_", "b"]


# ------------------------------------------------------------------------------------------- (a) constructors


def task_constructors(names, tier, seed):
    part = Part()
    part.program("constructors:" + ",".join(names))
    part.fn("common.named_vector", "common.named_covariance", "common._NamedArrayBase.from_data", "common._NamedArrayBase.from_dict")
    import sympy
    from formak import common

    rng = random.Random(seed + len(names))
    decl = list(names)
    rng.shuffle(decl)
    syms = [sympy.Symbol(n) for n in decl]
    arglist = sorted(syms, key=lambda s: s.name)  # what the library passes to the factories
    order = sorted(names)
    key_base = "ctor/" + ",".join(names)
    subsets = [(), tuple(names)] + [tuple(c) for r in (1, 2) for c in itertools.combinations(names, r)][:12] + [()]
    n_ok = 0
    # one class per kind, every subset constructed on it in turn: a value given in one construction must not leak into
    # a later construction of the same class (history dimension of the factories)
    with installed(), quiet():
        classes = {"vector": common.named_vector("V", arglist), "covariance": common.named_covariance("C", arglist)}
    for sub in subsets:
        vals = {n: z3.Real(f"val_{n}") for n in sub}
        for kind in ("vector", "covariance"):

            def harness():
                with installed(), quiet():
                    return classes[kind](**{n: SymReal(v) for n, v in vals.items()})

            ls = explore(harness)
            if len(ls) != 1 or ls[0].status != "ok":
                part.harness_error(f"{key_base}/{kind}/{sub}: {ls}")
                continue
            obj = ls[0].value
            n = len(names)
            want_shape = (n, 1) if kind == "vector" else (n, n)
            bad = None
            if tuple(obj.data.shape) != want_shape:
                bad = f"shape {obj.data.shape}"
            else:
                for i, nm in enumerate(order):
                    slot = obj.data[i, 0] if kind == "vector" else obj.data[i, i]
                    if nm in vals:
                        if not (isinstance(slot, SymReal) and slot.t.eq(vals[nm])):
                            bad = f"value given for {nm} not stored in slot {i}: {slot}"
                    else:
                        dflt = 0.0 if kind == "vector" else 1.0
                        if isinstance(slot, SymReal) or float(slot) != dflt:
                            bad = f"slot {i} ({nm}) not defaulted to {dflt}: {slot}"
                if kind == "covariance":
                    for i in range(n):
                        for j in range(n):
                            if i != j and (isinstance(obj.data[i, j], SymReal) or float(obj.data[i, j]) != 0.0):
                                bad = f"off-diagonal [{i},{j}] = {obj.data[i, j]}"
            part.record(Q("unsat" if bad is None else "sat", None, 0.0, ""), f"{key_base}/{kind}({','.join(sub) or '-'}): each value under its own name, rest defaulted")
            if bad is not None:
                # concrete replay
                fv = {nm: 2.0 + i for i, nm in enumerate(sub)}
                path = write_replay(PID, {"key": f"ctor/{kind}", "info": {"kind": "ctor", "names": list(names), "decl": decl, "which": kind, "given": fv}, "inputs": fv, "problem": bad})
                if _ctor_concrete_bad(names, decl, kind, fv):
                    part.violation(f"ctor/{kind}", f"named {kind} over {order} with {sub}: {bad}", path)
                else:
                    part.harness_error(f"{key_base}/{kind}: symbolic problem '{bad}' not reproduced concretely")
            else:
                n_ok += 1
    # unknown names (near misses) are refused; wrong shapes are refused
    with quiet():
        Vc = common.named_vector("V", arglist)
        Cc = common.named_covariance("C", arglist)
    near = set()
    for nm in names:
        near |= {nm + "1", nm[:-1] if len(nm) > 1 else nm + "_", nm.swapcase(), "_" + nm, nm + nm}
    near -= set(names)
    near.discard("")
    for nm in sorted(near):
        for cls, label in ((Vc, "vector"), (Cc, "covariance")):
            try:
                cls(**{nm: 1.0})
                ok = False
            except TypeError:
                ok = True
            part.record(Q("unsat" if ok else "sat", None, 0.0, ""), f"{key_base}/{label}: unknown name '{nm}' refused with TypeError")
            if not ok:
                path = write_replay(PID, {"key": f"ctor/unknown-name/{label}", "info": {"kind": "ctor-unknown", "names": list(names), "decl": decl, "which": label, "bad_name": nm}, "inputs": {}})
                part.violation(f"ctor/unknown-name/{label}", f"named {label} over {order} accepts the unknown name '{nm}'", path)
    n = len(names)
    for cls, label, shapes in ((Vc, "vector", [(n + 1, 1), (n,), (1, n) if n != 1 else (2, 2), (n, 2)]), (Cc, "covariance", [(n, 1), (n + 1, n + 1), (n, n + 1)])):
        for shp in shapes:
            if tuple(shp) == tuple(cls.shape):
                continue
            try:
                cls.from_data(np.zeros(shp))
                ok = False
            except ValueError:
                ok = True
            part.record(Q("unsat" if ok else "sat", None, 0.0, ""), f"{key_base}/{label}.from_data: shape {shp} refused with ValueError")
            if not ok:
                path = write_replay(PID, {"key": f"ctor/wrong-shape/{label}", "info": {"kind": "ctor-shape", "names": list(names), "decl": decl, "which": label, "shape": list(shp)}, "inputs": {}})
                part.violation(f"ctor/wrong-shape/{label}", f"{label}.from_data accepts shape {shp} for {n} names", path)
    # from_dict binds by str(key)
    with quiet():
        d = {s: float(i + 3) for i, s in enumerate(syms)}
        v = Vc.from_dict(d)
    ok = all(float(v.data[order.index(s.name), 0]) == d[s] for s in syms)
    part.record(Q("unsat" if ok else "sat", None, 0.0, ""), f"{key_base}/from_dict binds symbols by name")
    if not ok:
        path = write_replay(PID, {"key": "ctor/from_dict", "info": {"kind": "ctor-from-dict", "names": list(names), "decl": decl}, "inputs": {}})
        part.violation("ctor/from_dict", f"from_dict over {order} stores values in the wrong slots", path)
    # from_dict on both kinds: covariance binds by name too; keys that are not a declared name are refused -
    # an undeclared symbol, and a PAIR of declared symbols (a pair is not a name: the named covariance is diagonal)
    with quiet():
        dc = {s: float(i + 2) for i, s in enumerate(syms)}
        c = Cc.from_dict(dc)
    okc = all(float(c.data[order.index(s.name), order.index(s.name)]) == dc[s] for s in syms) and all(float(c.data[i, j]) == 0.0 for i in range(n) for j in range(n) if i != j)
    part.record(Q("unsat" if okc else "sat", None, 0.0, ""), f"{key_base}/covariance.from_dict binds symbols by name")
    if not okc:
        path = write_replay(PID, {"key": "ctor/from_dict/covariance", "info": {"kind": "ctor-from-dict-cov", "names": list(names), "decl": decl}, "inputs": {}})
        part.violation("ctor/from_dict/covariance", f"covariance.from_dict over {order} stores values in the wrong slots", path)
    bad_keys = [("undeclared", sympy.Symbol(sorted(near)[0]))]
    if n >= 2:
        bad_keys += [("pair", (syms[0], syms[1])), ("pair-rev", (syms[-1], syms[0]))]
    for lab, bk in bad_keys:
        for cls, label in ((Vc, "vector"), (Cc, "covariance")):
            try:
                with quiet():
                    cls.from_dict({bk: 2.5})
                ok = False
            except TypeError:
                ok = True
            part.record(Q("unsat" if ok else "sat", None, 0.0, ""), f"{key_base}/{label}.from_dict: {lab} key {bk} refused with TypeError")
            if not ok:
                path = write_replay(PID, {"key": f"ctor/from_dict-unknown/{label}/{lab}", "info": {"kind": "ctor-from-dict-unknown", "names": list(names), "decl": decl, "which": label, "key": [str(x) for x in bk] if isinstance(bk, tuple) else str(bk)}, "inputs": {}})
                part.violation(f"ctor/from_dict-unknown/{label}/{lab}", f"named {label} over {order}: from_dict accepts the {lab} key {bk}", path)
    part.sample({"names": list(names), "sorted": order, "subsets": len(subsets), "near_misses": sorted(near)[:6]})
    return part.d


def _ctor_concrete_bad(names, decl, kind, fv):
    import sympy
    from formak import common

    arglist = sorted([sympy.Symbol(n) for n in decl], key=lambda s: s.name)
    cls = common.named_vector("V", arglist) if kind == "vector" else common.named_covariance("C", arglist)
    cls(**{n: 7.0 + i for i, n in enumerate(names)})  # an earlier construction on the same class naming every entry
    obj = cls(**fv)
    order = sorted(names)
    for i, nm in enumerate(order):
        slot = float(obj.data[i, 0] if kind == "vector" else obj.data[i, i])
        want = fv.get(nm, 0.0 if kind == "vector" else 1.0)
        if slot != want:
            return True
    return False


# ------------------------------------------------------------------------------------------- (b)/(c) twins


def py_outputs(p, env, zin, Psym, *, cse=True, container="list", reverse=False, cut_prefix="inv", cal_container="set"):
    """Symbolic run of the real Python filter: named outputs of model, process_model and every sensor_model."""

    def harness():
        with installed(), quiet():
            ekf = pyh.build_ekf_sym(p, env, p.process_noise, p.sensor_noise, cse=cse, container=container, reverse_sensors=reverse, cal_container=cal_container)
            st = ekf.State(**pyh.sym_state_kwargs(p.state, env))
            ct = ekf.Control(**pyh.sym_state_kwargs(p.control, env))
            cov = ekf.Covariance.from_data(Psym.copy())
            out = {}
            ss = p.s_state()
            m = ekf._state_model.model(SymReal(env[p.dt]), st, ct)
            r = ekf.process_model(SymReal(env[p.dt]), st, cov, ct)
            for i, s in enumerate(ss):
                out[f"model/{s}"] = m.data[i, 0]
                out[f"predict/x/{s}"] = r.state.data[i, 0]
                for j, s2 in enumerate(ss):
                    out[f"predict/P/{s}/{s2}"] = r.covariance.data[i, j]
            for key in p.s_sensors():
                rd = ekf.make_reading(key, **{rr: SymReal(zin[key][rr]) for rr in p.sensors[key]})
                u = ekf.sensor_model(st, cov, sensor_key=key, sensor_reading=rd)
                for i, s in enumerate(ss):
                    out[f"update:{key}/x/{s}"] = u.state.data[i, 0]
                    for j, s2 in enumerate(ss):
                        out[f"update:{key}/P/{s}/{s2}"] = u.covariance.data[i, j]
                for i, rr in enumerate(p.s_readings(key)):
                    out[f"update:{key}/innov/{rr}"] = ekf.innovations[key][i, 0]
            return out

    ls = explore(harness, config={"gate": "assume", "inverse": "cut", "cut_prefix": cut_prefix})
    return ls


def twin_env(p, q, rho):
    """z3 variables shared by name through the renaming rho (p name -> q name)."""
    env_p = pyh.input_env(p)
    env_q = {q.dt: env_p[p.dt]}
    for n in p.state + p.control + p.calibration:
        env_q[rho.get(n, n)] = env_p[n]
    return env_p, env_q


def sym_cov_twin(p, q, rho):
    Pp, vars_ = pyh.sym_cov(p.state)
    sq = sorted(q.state)
    inv = {v: k for k, v in rho.items()}
    n = len(sq)
    Pq = np.empty((n, n), dtype=object)
    sp = sorted(p.state)
    for i in range(n):
        for j in range(n):
            a, b = inv.get(sq[i], sq[i]), inv.get(sq[j], sq[j])
            Pq[i, j] = Pp[sp.index(a), sp.index(b)]
    return Pp, Pq


def float_py_outputs(p, e, container="list", reverse=False, cal_container="set"):
    def go():
        with quiet():
            from formak import python

            st_ = p.symtab()
            cfg = python.Config(common_subexpression_elimination=True, innovation_filtering=None)
            ekf = python.compile_ekf(p.ui_model(container, cal_container=cal_container), {st_[c]: float(p.process_noise[c]) for c in p.control}, p.sympy_sensors(reverse=reverse), p.sympy_sensor_noise(reverse=True), pyh.float_calibration_map(p, e), config=cfg)
            st = ekf.State(**{s: float(e[s]) for s in p.state})
            ct = ekf.Control(**{c: float(e[c]) for c in p.control})
            cov = ekf.Covariance.from_data(pyh.float_cov(p.state, e))
            out = {}
            ss = p.s_state()
            m = ekf._state_model.model(float(e[p.dt]), st, ct)
            r = ekf.process_model(float(e[p.dt]), st, cov, ct)
            for i, s in enumerate(ss):
                out[f"model/{s}"] = float(m.data[i, 0])
                out[f"predict/x/{s}"] = float(r.state.data[i, 0])
                for j, s2 in enumerate(ss):
                    out[f"predict/P/{s}/{s2}"] = float(r.covariance.data[i, j])
            for key in p.s_sensors():
                rd = ekf.make_reading(key, **{rr: float(e[f"z_{key}_{rr}"]) for rr in p.sensors[key]})
                u = ekf.sensor_model(st, cov, sensor_key=key, sensor_reading=rd)
                for i, s in enumerate(ss):
                    out[f"update:{key}/x/{s}"] = float(u.state.data[i, 0])
                    for j, s2 in enumerate(ss):
                        out[f"update:{key}/P/{s}/{s2}"] = float(u.covariance.data[i, j])
                for i, rr in enumerate(p.s_readings(key)):
                    out[f"update:{key}/innov/{rr}"] = float(ekf.innovations[key][i, 0])
            return out

    return pyh.gate_guard(go)


def rename_key(k, rho, rrho):
    """Output key of p -> output key of the renamed twin."""
    parts = k.split("/")
    if parts[0] == "model":
        return f"model/{rho.get(parts[1], parts[1])}"
    head = parts[0]
    if parts[1] == "x":
        return f"{head}/x/{rho.get(parts[2], parts[2])}"
    if parts[1] == "P":
        return f"{head}/P/{rho.get(parts[2], parts[2])}/{rho.get(parts[3], parts[3])}"
    if parts[1] == "innov":
        key = head.split(":", 1)[1]
        return f"{head}/innov/{rrho.get(key, {}).get(parts[2], parts[2])}"
    raise KeyError(k)


def rename_program(p, rho, rrho):
    q = p.renamed(rho, pid=p.id + "-ren")
    q.sensors = {k: {rrho.get(k, {}).get(r, r): e for r, e in rs.items()} for k, rs in q.sensors.items()}
    q.sensor_noise = {k: {rrho.get(k, {}).get(r, r): v for r, v in rs.items()} for k, rs in q.sensor_noise.items()}
    return q


def inv_subst(p, q, rrho, nk, prefix_q, prefix_p):
    """Substitution identifying q's inverse cut symbols with p's, through the permutation of reading order."""
    sub = []
    for k, key in enumerate(p.s_sensors()):
        rp = p.s_readings(key)
        rq = q.s_readings(key)
        back = {v: kk for kk, v in rrho.get(key, {}).items()}
        m = len(rp)
        for i in range(m):
            for j in range(m):
                a, b = back.get(rq[i], rq[i]), back.get(rq[j], rq[j])
                sub.append((z3.Real(f"{prefix_q}{k}_{i}{j}"), z3.Real(f"{prefix_p}{k}_{rp.index(a)}{rp.index(b)}")))
    return sub


def task_twin(p, rho, rrho, variant, tier, seed, label):
    """variant: dict(container=..., reverse=...) applied to the twin; rho/rrho: symbol / reading renamings (may be empty)."""
    part = Part()
    part.program(p.id)
    part.fn("python.compile_ekf", "python.Model.model", "python.ExtendedKalmanFilter.process_model", "python.ExtendedKalmanFilter.sensor_model", "common.named_vector", "common.named_covariance")
    q = rename_program(p, rho, rrho)
    env_p, env_q = twin_env(p, q, rho)
    zin_p = {key: {r: z3.Real(f"z_{key}_{r}") for r in p.sensors[key]} for key in p.sensors}
    zin_q = {key: {rrho.get(key, {}).get(r, r): zin_p[key][r] for r in p.sensors[key]} for key in p.sensors}
    Pp, Pq = sym_cov_twin(p, q, rho)
    _, _, _, _, assumes = __import__("checks.c02", fromlist=["spec_pieces"]).spec_pieces(p, env_p)
    tmo = tier_timeout_ms(tier)
    key_base = f"twin/{p.id}/{label}"
    la = py_outputs(p, env_p, zin_p, Pp, cut_prefix="invA")
    try:
        lb = py_outputs(q, env_q, zin_q, Pq, cut_prefix="invB", container=variant.get("container", "list"), reverse=variant.get("reverse", False), cal_container=variant.get("cal_container", "set"))
    except Exception as ex:
        e0 = _twin_float_env(p, random.Random(seed))
        path = write_replay(PID, {"key": f"{key_base}/raises", "info": {"kind": "twin", "program": p.id, "rho": rho, "rrho": rrho, "variant": variant}, "inputs": e0, "exception": f"{type(ex).__name__}: {ex}"})
        part.violation(f"{key_base}/raises", f"twin definition ({label}) is refused/crashes: {type(ex).__name__}: {str(ex)[:200]}", path)
        return part.d
    part.leaves(la)
    part.leaves(lb)
    if len(la) != 1 or len(lb) != 1 or la[0].status != "ok" or lb[0].status != "ok":
        bad = [l for l in la + lb if l.status != "ok"]
        if bad and isinstance(bad[0].value, Exception) and lb[0].status != "ok" and la[0].status == "ok":
            e0 = _twin_float_env(p, random.Random(seed))
            path = write_replay(PID, {"key": f"{key_base}/raises", "info": {"kind": "twin", "program": p.id, "rho": rho, "rrho": rrho, "variant": variant}, "inputs": e0, "exception": repr(bad[0].value)[:300]})
            part.violation(f"{key_base}/raises", f"twin definition ({label}) raises {type(bad[0].value).__name__}: {str(bad[0].value)[:200]} while the original is accepted", path)
        else:
            # the ORIGINAL definition fails too: decide on the real, unshimmed code whether it is refused there as well
            e0 = _twin_float_env(p, random.Random(seed))
            try:
                float_py_outputs(p, e0)
                part.harness_error(f"{key_base}: {la} {lb}")
            except pyh.GateRejected:
                part.harness_error(f"{key_base}: {la} {lb}")
            except Exception as ex:
                path = write_replay(PID, {"key": f"{key_base}/original-raises", "info": {"kind": "twin", "program": p.id, "rho": {}, "rrho": {}, "variant": {}}, "inputs": e0, "exception": f"{type(ex).__name__}: {ex}"})
                part.violation(f"{key_base}/original-raises", f"a valid definition (noise maps declared in another order than the sensor maps; binding is by key) is refused / crashes: {type(ex).__name__}: {str(ex)[:200]}", path)
        return part.d
    oa, ob = la[0].value, lb[0].value
    sub = inv_subst(p, q, rrho, len(p.sensors), "invB", "invA")
    # inverse arguments agree through the reading permutation
    for k, key in enumerate(p.s_sensors()):
        ca, cb = la[0].cuts[k], lb[0].cuts[k]
        rp, rq = p.s_readings(key), q.s_readings(key)
        back = {v: kk for kk, v in rrho.get(key, {}).items()}
        m = len(rp)
        for i in range(m):
            for j in range(m):
                a, b = back.get(rq[i], rq[i]), back.get(rq[j], rq[j])
                prove_equal(part, PID, f"{key_base}: S[{rq[i]},{rq[j]}] of the twin == S[{a},{b}] of the original ({key})", lift(cb["arg"][i, j]), lift(ca["arg"][rp.index(a), rp.index(b)]), assumes, tmo, key=f"{key_base}/S/{key}")

    def mk_replay(ka, kb):
        def replay(e):
            ea = dict(e)
            eb = {}
            for nm, v in ea.items():
                eb[nm] = v
            for nm in p.state + p.control + p.calibration:
                eb[rho.get(nm, nm)] = ea[nm]
            sp = sorted(p.state)
            for i, a in enumerate(sp):
                for b in sp[i:]:
                    a2, b2 = sorted([rho.get(a, a), rho.get(b, b)])
                    eb[f"P_{a2}_{b2}"] = ea[f"P_{a}_{b}"]
            for key in p.sensors:
                for r in p.sensors[key]:
                    eb[f"z_{key}_{rrho.get(key, {}).get(r, r)}"] = ea[f"z_{key}_{r}"]
            fa = float_py_outputs(p, ea)
            fb = float_py_outputs(q, eb, container=variant.get("container", "list"), reverse=variant.get("reverse", False), cal_container=variant.get("cal_container", "set"))
            return {"impl": fb[kb], "spec": fa[ka]}

        return replay

    allv = dict(env_p)
    sp = sorted(p.state)
    for i, a in enumerate(sp):
        for b in sp[i:]:
            allv[f"P_{a}_{b}"] = z3.Real(f"P_{a}_{b}")
    for key in zin_p:
        for r, v in zin_p[key].items():
            allv[f"z_{key}_{r}"] = v

    def seeded_envs(rng, cnt):
        return [_twin_float_env(p, rng) for _ in range(cnt)]

    wit = pyh.diag_dominant(p.state)
    for ka, ta in oa.items():
        kb = rename_key(ka, rho, rrho)
        if kb not in ob:
            part.harness_error(f"{key_base}: twin lacks output {kb}")
            continue
        tb = z3.substitute(lift(ob[kb]), *sub) if sub else lift(ob[kb])
        prove_equal(part, PID, f"{key_base}: {ka} == twin {kb}", tb, lift(ta), assumes + la[0].assumes[len(assumes):], tmo, replay=mk_replay(ka, kb), key=f"{key_base}/{ka}", info={"kind": "twin", "program": p.id, "rho": rho, "rrho": rrho, "variant": variant, "out": [ka, kb]}, all_vars=allv, witness_constraints=wit, seeded_envs=seeded_envs)
    part.sample({"program": p.id, "label": label, "rho": rho, "rrho": rrho, "variant": variant, "outputs": len(oa)})
    return part.d


def _twin_float_env(p, rng):
    e = {nm: rng.randint(-16, 16) / 8.0 for nm in pyh.input_env(p)}
    e.update(pyh.seeded_cov_env(p.state, rng))
    for key in p.sensors:
        for r in p.sensors[key]:
            e[f"z_{key}_{r}"] = rng.randint(-16, 16) / 8.0
    return e


# ------------------------------------------------------------------------------------------- C++ twins


def cpp_outputs(cf, p):
    out = {}
    ss = p.s_state()
    leaves, _ = cf.run("predict")
    l = leaves[0]
    for i, s in enumerate(ss):
        out[f"predict/x/{s}"] = l.out[f"x_{s}"]
        for j, s2 in enumerate(ss):
            out[f"predict/P/{s}/{s2}"] = l.out[f"P_{i}_{j}"]
    cuts = {}
    for key in p.s_sensors():
        leaves, _ = cf.run(f"update:{key}")
        l = leaves[0]
        for i, s in enumerate(ss):
            out[f"update:{key}/x/{s}"] = l.out[f"x_{s}"]
            for j, s2 in enumerate(ss):
                out[f"update:{key}/P/{s}/{s2}"] = l.out[f"P_{i}_{j}"]
        for i, rr in enumerate(p.s_readings(key)):
            out[f"update:{key}/innov/{rr}"] = l.out[f"innov_{key}_{rr}"]
        cuts[key] = l.inverse_cuts()[0]
    return out, cuts


def task_cpp_twin(p, rho, rrho, variant, tier, seed, label):
    part = Part()
    part.program(p.id)
    part.fn("cpp.compile_ekf", "ast_fragments.State", "ast_fragments.StateOptionsConstructor", "ast_fragments.Reading", "ast_fragments.ReadingConstructor", "ast_fragments.ReadingOptions", "cpp.ExtendedKalmanFilter._translate_*")
    q = rename_program(p, rho, rrho)
    env_p, env_q = twin_env(p, q, rho)
    _, _, _, _, assumes = __import__("checks.c02", fromlist=["spec_pieces"]).spec_pieces(p, env_p)
    tmo = tier_timeout_ms(tier)
    key_base = f"cpp-twin/{p.id}/{label}"
    info = {"kind": "cpp-twin", "program": p.id, "rho": rho, "rrho": rrho, "variant": variant}
    try:
        ca = CppFilter(p, ekf=True, cse=True, k=None)
        ca.__enter__()
    except Exception as ex:
        part.harness_error(f"{key_base}: {ex}")
        return part.d
    try:
        # "defaults the rest" on the C++ side: Options objects default-initialised over dirty (0xFF) memory and handed
        # to the constructors read back as zeros (plain-double build; the symbolic scalar's own default is a zero constant)
        try:
            ca.compile_concrete()
            e0 = {nm: 0.5 for nm in env_p}
            for a_ in p.s_state():
                for b_ in p.s_state():
                    if a_ <= b_:
                        e0[f"P_{a_}_{b_}"] = 1.0 if a_ == b_ else 0.0
            douts, _, _ = ca.run_concrete("defaults", e0)
            badd = sorted(nm for nm, v in douts.items() if nm.startswith(("s2_", "r0_")) and not (v == 0.0))
            part.record(Q("sat" if badd else "unsat", None, 0.0, ""), f"{key_base}: C++ State / readings constructed from a default-initialised Options object are all zero (plain-double build, dirty memory)")
            if badd:
                path = write_replay(PID, {"key": f"cpp-ctor/{p.id}/defaults-options", "info": dict(info, kind="cpp-defaults"), "inputs": e0, "bad": {nm: repr(douts[nm]) for nm in badd[:6]}})
                part.violation(f"cpp-ctor/{p.id}/defaults-options", f"generated C++: a default-initialised Options object does not default its members to zero: {[(nm, douts[nm]) for nm in badd[:4]]}", path)
                return part.d
        except build.BuildError as ex:
            part.d["inconclusive"].append(f"{key_base}: defaults scenario (plain-double build): {str(ex)[:120]}")
        try:
            cb = CppFilter(q, ekf=True, cse=True, k=None, container=variant.get("container", "list"), reverse=variant.get("reverse", False), cal_container=variant.get("cal_container", "set"))
            cb.__enter__()
        except Exception as ex:
            path = write_replay(PID, {"key": f"{key_base}/raises", "info": info, "inputs": {}, "exception": f"{type(ex).__name__}: {ex}"})
            part.violation(f"{key_base}/raises", f"C++ generation of the twin ({label}) raises {type(ex).__name__}: {str(ex)[:200]}", path)
            return part.d
        try:
            ca.compile_symbolic()
            try:
                cb.compile_symbolic()
            except build.BuildError as ex:
                path = write_replay(PID, {"key": f"{key_base}/compile", "info": info, "inputs": {}, "compiler_log": ex.log[-2000:]})
                part.violation(f"{key_base}/compile", f"generated C++ of the twin ({label}) does not compile", path)
                return part.d
            oa, cuts_a = cpp_outputs(ca, p)
            ob, cuts_b = cpp_outputs(cb, q)
            # the twin's driver names its inputs with the twin's names: map them back to the shared variables
            ren = []
            for nm in p.state + p.control + p.calibration:
                if rho.get(nm, nm) != nm:
                    ren.append((z3.Real(rho[nm]), z3.Real("tmp!" + nm)))
            ren2 = [(z3.Real("tmp!" + nm), z3.Real(nm)) for nm in p.state + p.control + p.calibration if rho.get(nm, nm) != nm]
            sp, sq = sorted(p.state), sorted(q.state)
            inv = {v: kk for kk, v in rho.items()}
            pren, pren2 = [], []
            for i, a in enumerate(sq):
                for b in sq[i:]:
                    a0, b0 = sorted([inv.get(a, a), inv.get(b, b)], key=sp.index)
                    if (a, b) != (a0, b0):
                        pren.append((z3.Real(f"P_{a}_{b}"), z3.Real(f"tmpP!{a0}_{b0}")))
                        pren2.append((z3.Real(f"tmpP!{a0}_{b0}"), z3.Real(f"P_{a0}_{b0}")))
            zren, zren2 = [], []
            for key in p.sensors:
                for r in p.sensors[key]:
                    r2 = rrho.get(key, {}).get(r, r)
                    if r2 != r:
                        zren.append((z3.Real(f"z_{key}_{r2}"), z3.Real(f"tmpz!{key}_{r}")))
                        zren2.append((z3.Real(f"tmpz!{key}_{r}"), z3.Real(f"z_{key}_{r}")))
            isub = []
            for key in p.s_sensors():
                rp, rq = p.s_readings(key), q.s_readings(key)
                back = {v: kk for kk, v in rrho.get(key, {}).items()}
                m = len(rp)
                for i in range(m):
                    for j in range(m):
                        a, b = back.get(rq[i], rq[i]), back.get(rq[j], rq[j])
                        isub.append((z3.Real(f"inv0_{i}{j}"), z3.Real(f"tmpinv!{key}_{rp.index(a)}{rp.index(b)}")))

            def back_to_p(t, key=None):
                for stage in (ren + pren + zren, ren2 + pren2 + zren2):
                    if stage:
                        t = z3.substitute(t, *stage)
                return t

            def mk_replay(scn, na, nb):
                def replay(e):
                    ea = dict(e)
                    for nm in pyh.input_env(p):
                        ea.setdefault(nm, 0.5)
                    eb = dict(ea)
                    for nm in p.state + p.control + p.calibration:
                        eb[rho.get(nm, nm)] = ea[nm]
                    for i, a in enumerate(sp):
                        for b in sp[i:]:
                            ea.setdefault(f"P_{a}_{b}", 1.0 if a == b else 0.25)
                            a2, b2 = sorted([rho.get(a, a), rho.get(b, b)])
                            eb[f"P_{a2}_{b2}"] = ea[f"P_{a}_{b}"]
                    for key in p.sensors:
                        for r in p.sensors[key]:
                            ea.setdefault(f"z_{key}_{r}", 0.25)
                            eb[f"z_{key}_{rrho.get(key, {}).get(r, r)}"] = ea[f"z_{key}_{r}"]
                    fa, _, _ = ca.run_concrete(scn, {k: v for k, v in ea.items() if isinstance(v, (int, float))})
                    fb, _, _ = cb.run_concrete(scn, {k: v for k, v in eb.items() if isinstance(v, (int, float))})
                    return {"impl": fb[nb], "spec": fa[na]}

                return replay

            def cname(k, prog):
                parts = k.split("/")
                ssx = prog.s_state()
                if parts[1] == "x":
                    return f"x_{parts[2]}"
                if parts[1] == "P":
                    return f"P_{ssx.index(parts[2])}_{ssx.index(parts[3])}"
                return f"innov_{parts[0].split(':', 1)[1]}_{parts[2]}"

            for ka, ta in oa.items():
                kb = rename_key(ka, rho, rrho)
                tb = back_to_p(ob[kb])
                if ka.startswith("update:"):
                    key = ka.split("/")[0].split(":", 1)[1]
                    rp, rq = p.s_readings(key), q.s_readings(key)
                    back = {v: kk for kk, v in rrho.get(key, {}).items()}
                    m = len(rp)
                    s1 = [(z3.Real(f"inv0_{i}{j}"), z3.Real(f"tmpinv!{i}{j}")) for i in range(m) for j in range(m)]
                    s2 = [(z3.Real(f"tmpinv!{i}{j}"), z3.Real(f"inv0_{rp.index(back.get(rq[i], rq[i]))}{rp.index(back.get(rq[j], rq[j]))}")) for i in range(m) for j in range(m)]
                    tb = z3.substitute(z3.substitute(tb, *s1), *s2)
                scn = ka.split("/")[0]
                prove_equal(part, PID, f"{key_base}: {ka} == twin {kb}", tb, ta, assumes, tmo, replay=mk_replay(scn, cname(ka, p), cname(kb, q)), key=f"{key_base}/{ka}", info=dict(info, out=[ka, kb]), all_vars=dict(env_p))
            part.sample({"program": p.id, "backend": "c++", "label": label, "outputs": len(oa)})
        finally:
            cb.__exit__(None, None, None)
    finally:
        ca.__exit__(None, None, None)
    return part.d


# ------------------------------------------------------------------------------------------- task lists


def renamings(p, tier, seed):
    """(label, rho, rrho) families: all sort-order permutations of the state names + hard name sets."""
    out = []
    st = p.s_state()
    if len(st) <= 3:
        targets = [t for t in ["m", "B", "_c", "Q9"] if t not in p.control + p.calibration][: len(st)]
        for perm in itertools.permutations(targets):
            rho = dict(zip(st, perm))
            out.append(("state-perm:" + ">".join(perm), rho, {}))
    rng = random.Random(seed)
    allsyms = p.state + p.control + p.calibration
    for t in range(2 if tier == "quick" else 6):
        pool = [n for n in HARD if n not in (p.dt,)]
        rng.shuffle(pool)
        rho = dict(zip(allsyms, pool))
        rrho = {}
        for key in p.sensors:
            rn = ["zz", "Aa", "m1", "b_"]
            rng.shuffle(rn)
            rrho[key] = dict(zip(p.sensors[key], rn))
        out.append((f"hard-{t}", rho, rrho))
    return out


def _dispatch(fn, args):
    return fn(*args)


def run(tier, seed):
    rep = Report(PID, tier, seed, "translation_validation")
    tasks = []
    name_sets = [("x",), ("b", "a"), ("a", "B", "_c"), ("a1", "a_1", "aa", "A"), ("a10", "a2", "a1")]
    if tier != "quick":
        name_sets += [tuple(HARD[:7]), ("Z", "z_", "b", "B"), (r"\dot{x}", "x_{A}_{1}", "g")]
    for ns in name_sets:
        tasks.append((task_constructors, (ns, tier, seed)))
    base = CP.P3()
    rens = renamings(base, tier, seed)
    if tier == "quick":
        rens = rens[:3] + rens[-2:]
    for label, rho, rrho in rens:
        tasks.append((task_twin, (base, rho, rrho, {}, tier, seed, label)))
    # structure: a state that appears on no right-hand side moves from first to last in the sorted layout
    p17 = CP.P17()
    tasks.append((task_twin, (p17, {"a_load": "z_load"}, {}, {}, tier, seed, "unused-state:first>last")))
    if tier != "quick":
        tasks.append((task_twin, (p17, {"a_load": "z_load", "bias": "Bias", "pos": "_pos"}, {"compass": {"c": "zz", "d": "Aa"}}, {}, tier, seed, "structure:hard")))
        tasks.append((task_cpp_twin, (p17, {"a_load": "z_load"}, {}, {}, tier, seed, "unused-state:first>last")))
    # names that look like generated temporaries (t0, t1, ...) on the CSE-target program: python and C++ twins
    p7 = CP.P7()
    tnames = {n: f"t{i}" for i, n in enumerate(p7.s_state())}
    tasks.append((task_cpp_twin, (p7, tnames, {}, {}, tier, seed, "temporary-like names t0..")))
    tasks.append((task_twin, (p7, tnames, {}, {}, tier, seed, "temporary-like names t0..")))
    # C++ twins: fewer (a build each)
    for label, rho, rrho in (rens[1:2] + rens[-1:] if tier == "quick" else rens):
        tasks.append((task_cpp_twin, (base, rho, rrho, {}, tier, seed, label)))
    # (c) declaration order / container
    for label, variant in (("container=set", {"container": "set"}), ("reversed declarations", {"container": "reversed", "reverse": True}), ("calibration declared as a list", {"cal_container": "list"})):
        for p in ([base, CP.P8()] if tier == "quick" else [base, CP.P8(), CP.P10(), CP.P1()]):
            tasks.append((task_twin, (p, {}, {}, variant, tier, seed, label)))
            if p is base or tier != "quick":
                tasks.append((task_cpp_twin, (p, {}, {}, variant, tier, seed, label)))
    if tier != "quick":
        for p in (CP.P8(), CP.P10()):
            for label, rho, rrho in renamings(p, tier, seed + 1)[-3:]:
                tasks.append((task_twin, (p, rho, rrho, {}, tier, seed, label)))
                tasks.append((task_cpp_twin, (p, rho, rrho, {}, tier, seed, label)))
    for d in pmap(_dispatch, tasks):
        rep.merge(d)
    rep.bounds = {"name_sets": [list(n) for n in name_sets], "renamings": [r[0] for r in rens], "excluded_names": "names colliding with the generated scaffolding's own identifiers (dt, state, control, calibration, reading, jacobian, covariance) - stated exclusion", "containers": "list / set / reversed list for state, control, update map, sensor and reading maps; calibration as set and as list", "inputs": "all reals"}
    rep.assumptions = ["inverse cut-points identified through the permutation of reading order after proving the arguments equal", "validity gates assumed"]
    return finish(
        rep,
        explanation="(a) named vector/covariance constructors on symbolic values: each value lands in the slot the harness computes from sorted names, rest defaulted, unknown names/wrong shapes refused; (b) a model and its consistently renamed twin (all sort-order permutations of 3 state names, hard name sets for all symbols and readings) are compiled separately, inputs bound through the renaming to the same z3 variables, and every named output of model/process_model/sensor_model (Python) and of the generated C++ filter is proved equal across the pair; (c) the same for set / reversed declarations.",
        rule="one obligation per (name set, constructor case) and per (program, renaming or container variant, backend, named output)",
        trusted_base=["z3 5.1", "engine/symreal", "engine/vsym"],
    )


def replay(path):
    with open(path) as f:
        r = json.load(f)
    info = r["info"]
    if info["kind"] == "cpp-defaults":
        ps_ = {p_.id: p_ for p_ in CP.catalogue()}
        with CppFilter(ps_[info["program"]], ekf=True, cse=True, k=None) as cf_:
            cf_.compile_concrete()
            douts, _, _ = cf_.run_concrete("defaults", r["inputs"])
        badd = sorted(nm for nm, v in douts.items() if nm.startswith(("s2_", "r0_")) and not (v == 0.0))
        print(badd[:6])
        print("REPRODUCED" if badd else "not reproduced")
        return 1 if badd else 0
    if info["kind"] == "ctor":
        bad = _ctor_concrete_bad(info["names"], info["decl"], info["which"], info["given"])
        print("REPRODUCED" if bad else "not reproduced")
        return 1 if bad else 0
    if info["kind"].startswith("ctor-"):
        import sympy
        from formak import common

        arglist = sorted([sympy.Symbol(n) for n in info["decl"]], key=lambda s: s.name)
        if info["kind"] in ("ctor-from-dict-unknown", "ctor-from-dict-cov"):
            cls = common.named_vector("V", arglist) if info.get("which") == "vector" else common.named_covariance("C", arglist)
            if info["kind"] == "ctor-from-dict-cov":
                order = sorted(info["decl"])
                dc = {s_: float(i + 2) for i, s_ in enumerate([sympy.Symbol(n_) for n_ in info["decl"]])}
                c = cls.from_dict(dc)
                ok = all(float(c.data[order.index(s_.name), order.index(s_.name)]) == v_ for s_, v_ in dc.items())
                print("not reproduced" if ok else "REPRODUCED")
                return 0 if ok else 1
            k = info["key"]
            bk = tuple(sympy.Symbol(x) for x in k) if isinstance(k, list) else sympy.Symbol(k)
            try:
                cls.from_dict({bk: 2.5})
            except TypeError:
                print("not reproduced")
                return 0
            print("REPRODUCED: accepted", bk)
            return 1
        if info["kind"] == "ctor-unknown":
            cls = common.named_vector("V", arglist) if info["which"] == "vector" else common.named_covariance("C", arglist)
            try:
                cls(**{info["bad_name"]: 1.0})
            except TypeError:
                print("not reproduced")
                return 0
            print("REPRODUCED")
            return 1
        if info["kind"] == "ctor-shape":
            cls = common.named_vector("V", arglist) if info["which"] == "vector" else common.named_covariance("C", arglist)
            try:
                cls.from_data(np.zeros(tuple(info["shape"])))
            except ValueError:
                print("not reproduced")
                return 0
            print("REPRODUCED")
            return 1
        print("replay of from_dict: see check output")
        return 1
    ps = {p.id: p for p in CP.catalogue()}
    p = ps[info["program"]]
    rho, rrho, variant = info["rho"], info["rrho"], info["variant"]
    q = rename_program(p, rho, rrho)
    if info["kind"] == "twin":
        ea = r["inputs"]
        eb = dict(ea)
        for nm in p.state + p.control + p.calibration:
            eb[rho.get(nm, nm)] = ea[nm]
        sp = sorted(p.state)
        for i, a in enumerate(sp):
            for b in sp[i:]:
                a2, b2 = sorted([rho.get(a, a), rho.get(b, b)])
                eb[f"P_{a2}_{b2}"] = ea[f"P_{a}_{b}"]
        for key in p.sensors:
            for rr in p.sensors[key]:
                eb[f"z_{key}_{rrho.get(key, {}).get(rr, rr)}"] = ea[f"z_{key}_{rr}"]
        try:
            fa = float_py_outputs(p, ea)
            fb = float_py_outputs(q, eb, container=variant.get("container", "list"), reverse=variant.get("reverse", False), cal_container=variant.get("cal_container", "set"))
        except pyh.GateRejected as ex:
            print("gate rejected", ex)
            return 0
        except Exception as ex:
            print(f"REPRODUCED: raises {type(ex).__name__}: {ex}")
            return 1
        bad = [(ka, fa[ka], fb[rename_key(ka, rho, rrho)]) for ka in fa if not approx_equal(fa[ka], fb[rename_key(ka, rho, rrho)], rel=1e-6, abs_=1e-8)]
        print(bad[:6])
        print("REPRODUCED" if bad else "not reproduced")
        return 1 if bad else 0
    print("cpp twin replay: re-run bin/check C13 (needs two builds)")
    return 1
