"""C04 - prediction step: x' = f(x,u), P' = G P G^T + V M V^T; inputs unmodified; repeatable (E1)."""
from __future__ import annotations

import json
import random

import numpy as np
import z3

from corpus import programs as CP
from engine.symreal import expr as X
from engine.symreal.core import SymReal, explore, lift
from engine.symreal.shim import installed
from engine.symreal.zutil import zeval

from . import pyh
from .common import Part, Q, Report, approx_equal, finish, pmap, quiet, tier_timeout_ms, write_replay
from .oblig import prove_equal, reach

PID = "C04"


def float_predict(p, cse, e, repeat=False):
    """Real code in floats -> dict(state={name: v}, cov=ndarray) (by harness-sorted index)."""

    def go():
        with quiet():
            pn, sn = pyh.noise_vals_from_env(p, e)
            ekf = pyh.build_ekf_float(p, e, cse=cse, pn=pn, sn=sn)
            st = ekf.State(**{s: float(e[s]) for s in p.state})
            ct = ekf.Control(**{c: float(e[c]) for c in p.control})
            P = pyh.float_cov(p.state, e)
            cov = ekf.Covariance.from_data(P.copy())
            st0, P0, ct0 = st.data.copy(), cov.data.copy(), ct.data.copy()
            r = ekf.process_model(float(e[p.dt]), st, cov, ct)
            out = {"state": r.state.data.reshape(-1).copy(), "cov": r.covariance.data.copy()}
            out["inputs_unmodified"] = bool(np.array_equal(st0, st.data) and np.array_equal(P0, cov.data) and np.array_equal(ct0, ct.data))
            if repeat:
                r2 = ekf.process_model(float(e[p.dt]), st, cov, ct)
                out["repeat_identical"] = bool(np.array_equal(r2.state.data, r.state.data) and np.array_equal(r2.covariance.data, r.covariance.data))
        return out

    return pyh.gate_guard(go)


def float_alias_problems(p, cse, e1, e2):
    """Real code in floats: predict(e1), keep the result, predict again (chained on the result, and at e2):
    the kept result and the inputs must not change."""

    def go():
        probs = []
        with quiet():
            pn, sn = pyh.noise_vals_from_env(p, e1)
            ekf = pyh.build_ekf_float(p, e1, cse=cse, pn=pn, sn=sn)
            st = ekf.State(**{s: float(e1[s]) for s in p.state})
            ct = ekf.Control(**{c: float(e1[c]) for c in p.control})
            cov = ekf.Covariance.from_data(pyh.float_cov(p.state, e1))
            r1 = ekf.process_model(float(e1[p.dt]), st, cov, ct)
            keep = (np.array(r1.state.data, dtype=float).copy(), np.array(r1.covariance.data, dtype=float).copy())
            ins = (st.data.copy(), cov.data.copy())
            # chained use: feed the result back in
            r2 = ekf.process_model(float(e1[p.dt]), r1.state, r1.covariance, ct)
            if not (np.array_equal(keep[0], r1.state.data) and np.array_equal(keep[1], r1.covariance.data)):
                probs.append("the result of the first prediction changed when it was fed back into a second prediction")
            st2 = ekf.State(**{s: float(e2[s]) for s in p.state})
            ct2 = ekf.Control(**{c: float(e2[c]) for c in p.control})
            cov2 = ekf.Covariance.from_data(pyh.float_cov(p.state, e2))
            ekf.process_model(float(e2[p.dt]), st2, cov2, ct2)
            if not (np.array_equal(keep[0], r1.state.data) and np.array_equal(keep[1], r1.covariance.data)):
                probs.append("the result of the first prediction changed after an unrelated later prediction")
            if not (np.array_equal(ins[0], st.data) and np.array_equal(ins[1], cov.data)):
                probs.append("the inputs of the first prediction were modified")
        return probs

    try:
        return pyh.gate_guard(go)
    except pyh.GateRejected:
        return []


def spec_float(p, e):
    ss, sc = p.s_state(), p.s_control()
    f = [X.evalf(p.update[s], e) for s in ss]
    G = np.array([[X.evalf(X.diff(p.update[r], c), e) for c in ss] for r in ss]).reshape(len(ss), len(ss))
    V = np.array([[X.evalf(X.diff(p.update[r], c), e) for c in sc] for r in ss]).reshape(len(ss), len(sc))
    pn, _ = pyh.noise_vals_from_env(p, e)
    M = np.diag([float(pn[c]) for c in sc]) if sc else np.zeros((0, 0))
    P = pyh.float_cov(p.state, e)
    return f, G @ P @ G.T + V @ M @ V.T


def task(p, cse, tier, seed):
    part = Part()
    part.program(p.id)
    part.fn("python.ExtendedKalmanFilter.process_model", "python.ExtendedKalmanFilter.process_jacobian", "python.ExtendedKalmanFilter.control_jacobian", "python.Model.model", "python.assert_valid_covariance", "common.named_covariance.from_data")
    env = pyh.input_env(p)
    pn, sn = pyh.noise_env(p)
    tmo = tier_timeout_ms(tier)
    ss, sc = p.s_state(), p.s_control()
    n = len(ss)
    specf, aU = pyh.spec_update(p, env)
    G, aG = pyh.spec_jacobian(p, p.update, ss, ss, env)
    V, aV = pyh.spec_jacobian(p, p.update, ss, sc, env)
    aS = []
    for key in p.sensors:
        aS += pyh.spec_sensor(p, key, env)[1]
    assumes = aU + aG + aV + aS + pyh.noise_positive(pn, sn)
    Psym, Pvars = pyh.sym_cov(p.state)
    Pz = pyh.mat_z3(Psym)
    M = [[(pn[sc[i]] if i == j else z3.RealVal(0)) for j in range(len(sc))] for i in range(len(sc))]
    specP = pyh.zmatmul(G, pyh.zmatmul(Pz, pyh.ztranspose(G)))
    if sc:
        specP = pyh.zadd(specP, pyh.zmatmul(V, pyh.zmatmul(M, pyh.ztranspose(V))))
    key_base = f"{p.id}/cse={int(cse)}"
    allv = dict(env)
    allv.update({f"pn_{c}": pn[c] for c in pn})
    for (a, b), v in Pvars.items():
        allv[f"P_{a}_{b}"] = v

    def seeded_envs(rng, k):
        out = []
        for _ in range(k):
            e = {nm: rng.randint(-16, 16) / 8.0 for nm in env}
            e.update(pyh.seeded_cov_env(p.state, rng))
            for c in p.control:
                e[f"pn_{c}"] = rng.choice([0.25, 0.5, 1.0, 2.0])
            out.append(e)
        return out

    # concrete behaviour on valid inputs + encoding validation points
    conc = []
    for e in seeded_envs(random.Random(seed + 11), 2):
        try:
            got = float_predict(p, cse, e, repeat=True)
        except pyh.GateRejected:
            continue
        except Exception as ex:
            path = write_replay(PID, {"key": key_base + "/concrete-exception", "info": {"program": p.id, "cse": cse}, "inputs": e, "exception": f"{type(ex).__name__}: {ex}"})
            part.violation(key_base + "/concrete-exception", f"process_model raises {type(ex).__name__}: {ex} on a valid input", path)
            return part.d
        if not got["inputs_unmodified"] or not got["repeat_identical"]:
            path = write_replay(PID, {"key": key_base + "/purity", "info": {"program": p.id, "cse": cse}, "inputs": e, "result": {k: got[k] for k in ("inputs_unmodified", "repeat_identical")}})
            part.violation(key_base + "/purity", f"process_model modifies its inputs or is not repeatable: {got['inputs_unmodified']=}, {got['repeat_identical']=}", path)
        conc.append((e, got))
        # concrete differential at the seeded point (decides changes that leave the encodable fragment)
        f_, Pn_ = spec_float(p, e)
        badc = [ss[i] for i in range(n) if not approx_equal(float(got["state"][i]), f_[i])] + [f"P[{ss[i]},{ss[j]}]" for i in range(n) for j in range(n) if not approx_equal(float(got["cov"][i, j]), float(Pn_[i, j]), abs_=1e-8)]
        part.record(Q("sat" if badc else "unsat", None, 0.0, ""), f"{key_base}: real prediction == specification at a seeded point (concrete)")
        if badc:
            path = write_replay(PID, {"key": key_base + "/seeded-point", "info": {"program": p.id, "cse": cse}, "inputs": e})
            part.violation(key_base + "/seeded-point", f"process_model differs from f / G P G^T + V M V^T at the seeded point {e}: {badc[:4]}", path)
            return part.d

    env2 = pyh.second_env(env, keep=p.calibration)
    Psym2, Pvars2 = pyh.sym_cov(p.state, prefix="P2")
    ppairs = [(Pvars[k_], Pvars2[k_]) for k_ in Pvars]

    def to2(t):
        t = pyh.subst_env(t, env, env2)
        return z3.substitute(t, *ppairs) if ppairs else t

    def harness():
        with installed(), quiet():
            ekf = pyh.build_ekf_sym(p, env, pn, sn, cse=cse)
            st = ekf.State(**pyh.sym_state_kwargs(p.state, env))
            ct = ekf.Control(**pyh.sym_state_kwargs(p.control, env))
            cov = ekf.Covariance.from_data(Psym.copy())
            snap = (st.data.copy(), cov.data.copy(), ct.data.copy())
            r1 = ekf.process_model(SymReal(env[p.dt]), st, cov, ct)
            after = (st.data.copy(), cov.data.copy(), ct.data.copy())
            r1_snap = (r1.state.data.copy(), r1.covariance.data.copy())
            r2 = ekf.process_model(SymReal(env[p.dt]), st, cov, ct)
            # history dimension: a later call on the same filter object with independent inputs
            st3 = ekf.State(**pyh.sym_state_kwargs(p.state, env2))
            ct3 = ekf.Control(**pyh.sym_state_kwargs(p.control, env2))
            cov3 = ekf.Covariance.from_data(Psym2.copy())
            r3 = ekf.process_model(SymReal(env2[p.dt]), st3, cov3, ct3)
            # results handed out earlier must not change when the filter is used again (no aliasing of buffers)
            stable1 = all(lift(a).eq(lift(b)) for A, B in zip(r1_snap, (r1.state.data, r1.covariance.data)) for a, b in zip(A.reshape(-1), B.reshape(-1)))
            still_inputs = all(lift(a).eq(lift(b)) for A, B in zip(snap, (st.data, cov.data, ct.data)) for a, b in zip(A.reshape(-1), B.reshape(-1)))
            r1 = type("R", (), {"state": ekf.State.from_data(r1_snap[0]), "covariance": ekf.Covariance.from_data(r1_snap[1])})()
        return r1, r2, snap, after, r3, (stable1 and still_inputs)

    leaves = explore(harness, assumes=assumes, config={"gate": "assume"})
    part.leaves(leaves)
    bad_leaves = [l for l in leaves if l.status != "ok"]
    if bad_leaves:
        # the real code raised on a feasible symbolic path: confirm concretely
        for e in seeded_envs(random.Random(seed + 5), 6):
            try:
                float_predict(p, cse, e, repeat=True)
            except pyh.GateRejected:
                continue
            except Exception as ex:
                path = write_replay(PID, {"key": key_base + "/raises", "info": {"program": p.id, "cse": cse}, "inputs": e, "exception": f"{type(ex).__name__}: {ex}"})
                part.violation(key_base + "/raises", f"process_model raises {type(ex).__name__}: {ex}", path)
                return part.d
        part.harness_error(f"{key_base}: symbolic path raised {bad_leaves[0]}; not reproduced concretely")
        return part.d
    base_assumes = assumes
    multi = len(leaves) > 1
    part.extra("paths_per_config", [len(leaves)])
    for li, leaf in enumerate(leaves):
        assumes = base_assumes + leaf.pc
        if multi:
            from .common import solve as _solve

            if _solve(leaf.assumes + leaf.pc, 5000).status == "unsat":
                continue
            key_base = f"{p.id}/cse={int(cse)}/path{li}"
        r1, r2, snap, after, r3, stable1 = leaf.value
        from .common import Q as _Q

        part.record(_Q("unsat" if stable1 else "sat", None, 0.0, ""), f"{key_base}: results handed out earlier and the caller's inputs are unchanged by later calls on the same filter (no aliasing)")
        if not stable1:
            es = seeded_envs(random.Random(seed + 9), 2)
            probs = float_alias_problems(p, cse, es[0], es[1])
            if probs:
                path = write_replay(PID, {"key": f"{p.id}/cse={int(cse)}/aliasing", "info": {"program": p.id, "cse": cse, "what": "aliasing"}, "inputs": {"first": es[0], "second": es[1]}, "problems": probs})
                part.violation(f"{p.id}/cse={int(cse)}/aliasing", f"process_model results/inputs change when the filter is used again: {probs[0]}", path)
            else:
                part.d["inconclusive"].append(f"{key_base}: symbolic aliasing not reproduced concretely")
        if multi:
            # encoding-validation points belong to whichever path their inputs select
            conc_here = []
        else:
            conc_here = conc
        reach(part, key_base + "/assumptions-sat", assumes + pyh.diag_dominant(p.state))
        part.extra("gate_assumptions", len(leaf.gate_assumed))

        # encoding validation
        for e, got in conc_here:
            for i, s in enumerate(ss):
                v = zeval(lift(r1.state.data[i, 0]), e)
                if not approx_equal(float(v), float(got["state"][i])):
                    part.harness_error(f"{key_base}: encoding validation state[{s}] {v} vs {got['state'][i]}")
            for i in range(n):
                for j in range(n):
                    v = zeval(lift(r1.covariance.data[i, j]), e)
                    if not approx_equal(float(v), float(got["cov"][i, j]), rel=1e-6, abs_=1e-8):
                        part.harness_error(f"{key_base}: encoding validation cov[{i},{j}] {v} vs {got['cov'][i, j]}")

        wit = pyh.diag_dominant(p.state)
        for i, s in enumerate(ss):

            def replay(e, i=i):
                got = float_predict(p, cse, e)
                f, _ = spec_float(p, e)
                return {"impl": float(got["state"][i]), "spec": f[i]}

            prove_equal(part, PID, f"{key_base}/state[{s}]==f", lift(r1.state.data[i, 0]), specf[s], assumes, tmo, replay=replay, key=f"{key_base}/state[{s}]", info={"program": p.id, "cse": cse, "what": "state", "name": s}, all_vars=allv, witness_constraints=wit, seeded_envs=seeded_envs)
        for i in range(n if not p.state_only else 0):
            for j in range(n):

                def replay(e, i=i, j=j):
                    got = float_predict(p, cse, e)
                    _, Pn = spec_float(p, e)
                    return {"impl": float(got["cov"][i, j]), "spec": float(Pn[i, j])}

                prove_equal(part, PID, f"{key_base}/cov[{ss[i]},{ss[j]}]==GPG'+VMV'", lift(r1.covariance.data[i, j]), specP[i][j], assumes, tmo, replay=replay, key=f"{key_base}/cov[{ss[i]},{ss[j]}]", info={"program": p.id, "cse": cse, "what": "cov", "i": i, "j": j}, all_vars=allv, witness_constraints=wit, seeded_envs=seeded_envs)

        # second call on the same filter object with fresh inputs == specification at the new inputs
        assumes2 = assumes + [to2(a) for a in assumes]

        def float_second(e):
            e1 = {k_: v for k_, v in e.items() if not k_.endswith("__2") and not k_.startswith("P2_")}
            e2 = dict(e1)
            for nm in env:
                if nm not in p.calibration:
                    e2[nm] = e.get(env2[nm].decl().name(), 0.25)
            for (a, b) in Pvars:
                e2[f"P_{a}_{b}"] = e.get(f"P2_{a}_{b}", 1.0 if a == b else 0.0)
            for (a, b) in Pvars:
                e1.setdefault(f"P_{a}_{b}", 1.0 if a == b else 0.0)
            for nm in env:
                e1.setdefault(nm, 0.25)
            return e1, e2

        def float_predict_sequence(e):
            e1, e2 = float_second(e)

            def go():
                with quiet():
                    pnv, snv = pyh.noise_vals_from_env(p, e1)
                    ekf = pyh.build_ekf_float(p, e1, cse=cse, pn=pnv, sn=snv)
                    out = None
                    for ee in (e1, e2):
                        st_ = ekf.State(**{s_: float(ee[s_]) for s_ in p.state})
                        ct_ = ekf.Control(**{c_: float(ee[c_]) for c_ in p.control})
                        cov_ = ekf.Covariance.from_data(pyh.float_cov(p.state, ee))
                        r_ = ekf.process_model(float(ee[p.dt]), st_, cov_, ct_)
                        out = {"state": r_.state.data.reshape(-1).copy(), "cov": r_.covariance.data.copy()}
                    return out, e2

            return pyh.gate_guard(go)

        allv2 = dict(allv)
        allv2.update({v.decl().name(): v for v in env2.values()})
        for k_, v in Pvars2.items():
            allv2[f"P2_{k_[0]}_{k_[1]}"] = v
        wit2 = wit + pyh.diag_dominant(p.state, prefix="P2")
        for i, s in enumerate(ss):

            def replay(e, i=i):
                got, e2 = float_predict_sequence(e)
                f_, _ = spec_float(p, e2)
                return {"impl": float(got["state"][i]), "spec": f_[i]}

            prove_equal(part, PID, f"{key_base}/second call state[{s}]==f at the new inputs", lift(r3.state.data[i, 0]), to2(specf[s]), assumes2, tmo, replay=replay, key=f"{key_base}/second-call/state[{s}]", info={"program": p.id, "cse": cse, "what": "second-call"}, all_vars=allv2, witness_constraints=wit2)
        for i in range(n if not p.state_only else 0):
            for j in range(i, n):

                def replay(e, i=i, j=j):
                    got, e2 = float_predict_sequence(e)
                    _, Pn = spec_float(p, e2)
                    return {"impl": float(got["cov"][i, j]), "spec": float(Pn[i, j])}

                prove_equal(part, PID, f"{key_base}/second call cov[{ss[i]},{ss[j]}]==GPG'+VMV' at the new inputs", lift(r3.covariance.data[i, j]), to2(specP[i][j]), assumes2, tmo, replay=replay, key=f"{key_base}/second-call/cov[{ss[i]},{ss[j]}]", info={"program": p.id, "cse": cse, "what": "second-call"}, all_vars=allv2, witness_constraints=wit2)

        # inputs unmodified: every element of the inputs is the same term before and after the call
        same = all(lift(a).eq(lift(b)) for A, B in zip(snap, after) for a, b in zip(A.reshape(-1), B.reshape(-1)))

        part.record(Q("unsat" if same else "sat", None, 0.0, ""), f"{key_base}/inputs-unmodified (term identity)")
        if not same:
            e = seeded_envs(random.Random(seed), 1)[0]
            path = write_replay(PID, {"key": key_base + "/purity", "info": {"program": p.id, "cse": cse}, "inputs": e})
            part.violation(key_base + "/purity", "process_model modified its input objects (symbolic terms differ after the call)", path)
        rep_same = all(lift(a).eq(lift(b)) for a, b in zip(r1.state.data.reshape(-1), r2.state.data.reshape(-1))) and all(lift(a).eq(lift(b)) for a, b in zip(r1.covariance.data.reshape(-1), r2.covariance.data.reshape(-1)))
        if rep_same:
            part.record(Q("unsat", None, 0.0, ""), f"{key_base}/repeat-identical (term identity)")
        else:
            for i in range(n):
                prove_equal(part, PID, f"{key_base}/repeat state[{ss[i]}]", lift(r1.state.data[i, 0]), lift(r2.state.data[i, 0]), assumes, tmo, key=f"{key_base}/purity")
                for j in range(n):
                    prove_equal(part, PID, f"{key_base}/repeat cov[{i},{j}]", lift(r1.covariance.data[i, j]), lift(r2.covariance.data[i, j]), assumes, tmo, key=f"{key_base}/purity")
    assumes = base_assumes
    part.sample({"program": p.id, "cse": cse, "cov[0][0]": str(z3.simplify(lift(r1.covariance.data[0, 0])))[:200]})
    return part.d


def int_env(p, rng):
    """Integer-valued state / control / covariance (diagonally dominant), non-integer dt and calibration."""
    e = {}
    for s_ in p.state:
        e[s_] = float(rng.randint(-4, 4))
    for c in p.control:
        e[c] = float(rng.randint(-3, 3))
    for k in p.calibration:
        e[k] = rng.randint(1, 7) / 8.0
    e[p.dt] = rng.choice([0.375, 0.625, 0.15625])
    ns = sorted(p.state)
    for i, a in enumerate(ns):
        for b in ns[i:]:
            e[f"P_{a}_{b}"] = float(len(ns) + 1 + rng.randint(0, 2)) if a == b else float(rng.choice([0, 1, -1]))
    return e


def float_predict_variant(p, cse, e, variant):
    """The same prediction with the inputs handed over in another array representation (a dimension the symbolic
    engine cannot see): integer dtype (values are whole numbers), read-only arrays, Fortran order / strided views."""

    def go():
        with quiet():
            pn, sn = pyh.noise_vals_from_env(p, e)
            ekf = pyh.build_ekf_float(p, e, cse=cse, pn=pn, sn=sn)
            ss, sc = p.s_state(), p.s_control()
            sv = np.array([[e[s_]] for s_ in ss])
            cv = np.array([[e[c]] for c in sc]).reshape(len(sc), 1)
            P = pyh.float_cov(p.state, e)
            if variant == "int64":
                sv, cv, P = sv.astype(np.int64), cv.astype(np.int64), P.astype(np.int64)
            elif variant == "readonly":
                for a in (sv, cv, P):
                    a.setflags(write=False)
            elif variant == "strided":
                big = np.zeros((2 * len(ss), 2 * len(ss)))
                big[::2, ::2] = P
                P = np.asfortranarray(big)[::2, ::2]
                sv = np.repeat(sv, 2, axis=1)[:, :1]
            st = ekf.State.from_data(sv)
            ct = ekf.Control.from_data(cv)
            cov = ekf.Covariance.from_data(P)
            r = ekf.process_model(float(e[p.dt]), st, cov, ct)
            return {"state": np.array(r.state.data, dtype=float).reshape(-1), "cov": np.array(r.covariance.data, dtype=float)}

    return pyh.gate_guard(go)


def task_repr(p, cse, tier, seed):
    part = Part()
    part.program(p.id)
    part.fn("python.ExtendedKalmanFilter.process_model", "common._NamedArrayBase.from_data")
    rng = random.Random(seed + 404)
    ss = p.s_state()
    for variant in ("int64", "readonly", "strided"):
        for t in range(2 if tier == "quick" else 6):
            e = int_env(p, rng)
            key = f"{p.id}/cse={int(cse)}/representation={variant}"
            try:
                got = float_predict_variant(p, cse, e, variant)
            except pyh.GateRejected:
                continue
            except Exception as ex:
                path = write_replay(PID, {"key": key, "info": {"program": p.id, "cse": cse, "kind": "repr", "variant": variant}, "inputs": e, "exception": f"{type(ex).__name__}: {ex}"})
                part.violation(key, f"process_model raises {type(ex).__name__}: {ex} when the inputs are given as {variant} arrays (values {e})", path)
                part.record(Q("sat", None, 0.0, ""), f"{key}: prediction == specification at a whole-number point (concrete replay)")
                break
            try:
                f, Pn = spec_float(p, e)
            except (ZeroDivisionError, ValueError, OverflowError):
                continue  # the specification is undefined at this whole-number point
            bad = [ss[i] for i in range(len(ss)) if not approx_equal(float(got["state"][i]), f[i])]
            badP = [(ss[i], ss[j]) for i in range(len(ss)) for j in range(len(ss)) if not approx_equal(float(got["cov"][i, j]), float(Pn[i, j]), abs_=1e-9)]
            ok = not bad and not badP
            part.record(Q("unsat" if ok else "sat", None, 0.0, ""), f"{key}: prediction == specification at a whole-number point (concrete replay)")
            if not ok:
                path = write_replay(PID, {"key": key, "info": {"program": p.id, "cse": cse, "kind": "repr", "variant": variant}, "inputs": e})
                part.violation(key, f"process_model with inputs given as {variant} arrays differs from the specification at {e}: state {bad}, covariance {badP[:3]}", path)
                break
    return part.d


def spec_float_mag(p, e):
    """Magnitude bounds (see expr.evalmag) of the specification's next state and covariance entries."""
    ss, sc = p.s_state(), p.s_control()
    fm = [X.evalmag(p.update[s], e) for s in ss]
    G = np.array([[X.evalmag(X.diff(p.update[r], c), e) for c in ss] for r in ss]).reshape(len(ss), len(ss))
    V = np.array([[X.evalmag(X.diff(p.update[r], c), e) for c in sc] for r in ss]).reshape(len(ss), len(sc))
    pn, _ = pyh.noise_vals_from_env(p, e)
    M = np.diag([abs(float(pn[c])) for c in sc]) if sc else np.zeros((0, 0))
    P = np.abs(pyh.float_cov(p.state, e))
    return fm, G @ P @ G.T + V @ M @ V.T


def task_regimes(p, cse, tier, seed):
    """Concrete replays in value regimes (tiny covariance / noise, tiny states, huge states): see pyh.regime_envs."""
    part = Part()
    part.program(p.id)
    part.fn("python.ExtendedKalmanFilter.process_model")
    rng = random.Random(seed + 909)
    ss = p.s_state()
    n = len(ss)
    for rnd in range(1 if tier == "quick" else 3):
        for label, e in pyh.regime_envs(p, rng):
            key = f"{p.id}/cse={int(cse)}/regime={label}"
            try:
                f_, Pn_ = spec_float(p, e)
                fm, Pm = spec_float_mag(p, e)
            except (ZeroDivisionError, ValueError, OverflowError):
                continue  # the specification is undefined at this point
            if not (np.all(np.isfinite(f_)) and np.all(np.isfinite(Pn_)) and np.all(np.isfinite(fm)) and np.all(np.isfinite(Pm))):
                continue
            try:
                got = float_predict(p, cse, e)
            except pyh.GateRejected:
                continue
            except Exception as ex:
                path = write_replay(PID, {"key": key, "info": {"program": p.id, "cse": cse, "kind": "regime", "regime": label}, "inputs": e, "exception": f"{type(ex).__name__}: {ex}"})
                part.violation(key, f"process_model raises {type(ex).__name__}: {ex} on a valid input in the {label} regime ({e})", path)
                part.record(Q("sat", None, 0.0, ""), f"{key}: prediction == specification relative to operand magnitude (concrete replay)")
                continue
            ok = pyh.mag_close(got["state"], f_, fm) and pyh.mag_close(got["cov"], Pn_, Pm)
            part.record(Q("unsat" if ok else "sat", None, 0.0, ""), f"{key}: prediction == specification relative to operand magnitude (concrete replay)")
            if not ok:
                path = write_replay(PID, {"key": key, "info": {"program": p.id, "cse": cse, "kind": "regime", "regime": label}, "inputs": e})
                part.violation(key, f"process_model differs from f / G P G^T + V M V^T in the {label} regime at {e}: state {np.asarray(got['state']).tolist()} vs {list(f_)}, covariance {np.asarray(got['cov']).tolist()} vs {np.asarray(Pn_).tolist()}", path)
    return part.d


def programs_for(tier, seed):
    if tier == "quick":
        return [CP.P1(), CP.P3(), CP.P10(), CP.P12(), CP.P14(), CP.P17(), CP.P20(), CP.P22(), CP.P24(), CP.P3().restrict(control=False), CP.P3().restrict(calibration=False)]
    ps = CP.all_fixed() + [CP.P22(), CP.P24()] + CP.presence_variants(CP.P3())[1:] + CP.presence_variants(CP.P10())[1:]
    ps += [CP.random_program(seed, i) for i in range(8)]
    return ps


def _dispatch(fn, args):
    return fn(*args)


def run(tier, seed):
    rep = Report(PID, tier, seed, "translation_validation")
    ps = programs_for(tier, seed)
    cses = (True, False) if tier == "thorough" else (True,)
    tasks = [(p, cse, tier, seed) for p in ps for cse in cses]
    if tier == "quick":
        tasks.append((CP.P3(), False, tier, seed))
    from .common import pmap_staged

    rtasks = [(task_repr, (p, True, tier, seed)) for p in ps] + [(task_regimes, (p, True, tier, seed)) for p in ps + [CP.P27()]] + [(task_regimes, (CP.P27(), False, tier, seed))]
    from .common import with_extra_validation

    extra = [(with_extra_validation, (task, CP.P3(), True, tier, seed)), (with_extra_validation, (task_regimes, CP.P1(), True, tier, seed))]
    for d in pmap_staged(_dispatch, rtasks, [(task, t) for t in tasks] + extra):
        rep.merge(d)
    rep.bounds = {"programs": [p.id for p in ps], "inputs": "all real dt, state, control, calibration; all symmetric P (proof) - witnesses restricted to diagonally dominant P; all per-control noise > 0", "outside": "floating-point rounding; validity gates treated as assumptions here (their behaviour is C09)"}
    rep.bounds["state_only_programs"] = "P24 (tiny coefficients): state obligations and concrete differentials only - the derivative constants sympy folds in floats differ from the exact products at 1e-29, exact covariance equality is refuted at that level and the 1e-9-relative claim on a box does not finish within the budget"
    rep.assumptions = ["reals for doubles", "assert_valid_covariance gates assumed to pass (allclose symmetric, eigenvalues >= 0)", "UF abstraction for transcendental functions"]
    return finish(
        rep,
        explanation="process_model of the real filter is executed on symbolic dt/state/P/control/calibration/noise; the returned state equals f and every covariance entry equals (G P G^T + V M V^T)[i][j] with G, V from the harness differentiator and M assembled by name; inputs are term-identical after the call; a second call returns identical terms.",
        rule="one obligation per (program, CSE, state slot) and per covariance entry, plus purity/repeatability obligations",
        trusted_base=["z3 5.1", "engine/symreal", "harness differentiator"],
    )


def replay(path):
    with open(path) as f:
        r = json.load(f)
    info = r["info"]
    ps = {p.id: p for p in programs_for("thorough", int(r.get("seed", 0))) + CP.catalogue()}
    p = ps[info["program"]]
    e = r["inputs"]
    if info.get("what") == "aliasing":
        probs = float_alias_problems(p, info["cse"], e["first"], e["second"])
        print(probs)
        print("REPRODUCED" if probs else "not reproduced")
        return 1 if probs else 0
    if info.get("kind") == "regime":
        try:
            got = float_predict(p, info["cse"], e)
        except pyh.GateRejected as ex:
            print("candidate rejected by validity gate:", ex)
            return 0
        except Exception as ex:
            print(f"REPRODUCED: raises {type(ex).__name__}: {ex}")
            return 1
        f_, Pn_ = spec_float(p, e)
        fm, Pm = spec_float_mag(p, e)
        ok = pyh.mag_close(got["state"], f_, fm) and pyh.mag_close(got["cov"], Pn_, Pm)
        print("not reproduced" if ok else "REPRODUCED", got["state"], f_, got["cov"], Pn_)
        return 0 if ok else 1
    if info.get("kind") == "repr":
        try:
            got = float_predict_variant(p, info["cse"], e, info["variant"])
        except pyh.GateRejected as ex:
            print("candidate rejected by validity gate:", ex)
            return 0
        except Exception as ex:
            print(f"REPRODUCED: raises {type(ex).__name__}: {ex}")
            return 1
        f, Pn = spec_float(p, e)
        ss = p.s_state()
        bad = [ss[i] for i in range(len(ss)) if not approx_equal(float(got["state"][i]), f[i])]
        badP = [(i, j) for i in range(len(ss)) for j in range(len(ss)) if not approx_equal(float(got["cov"][i, j]), float(Pn[i, j]), abs_=1e-9)]
        print("REPRODUCED" if bad or badP else "not reproduced", bad, badP[:4])
        return 1 if bad or badP else 0
    if info.get("what") == "second-call":
        print("second-call obligation: re-run bin/check C04 (the replay needs the two-call sequence); inputs:", e)
        return 1
    try:
        got = float_predict(p, info["cse"], e, repeat=True)
    except pyh.GateRejected as ex:
        print("candidate rejected by validity gate:", ex)
        return 0
    except Exception as ex:
        print(f"REPRODUCED: raises {type(ex).__name__}: {ex}")
        return 1
    f, Pn = spec_float(p, e)
    bad = 0
    for i, s in enumerate(p.s_state()):
        if not approx_equal(float(got["state"][i]), f[i]):
            print(f"REPRODUCED: state[{s}] = {got['state'][i]} expected {f[i]}")
            bad = 1
    n = len(f)
    for i in range(n):
        for j in range(n):
            if not approx_equal(float(got["cov"][i, j]), float(Pn[i, j]), abs_=1e-8):
                print(f"REPRODUCED: cov[{i},{j}] = {got['cov'][i, j]} expected {Pn[i, j]}")
                bad = 1
    if not got["inputs_unmodified"] or not got.get("repeat_identical", True):
        print("REPRODUCED: purity", got["inputs_unmodified"], got.get("repeat_identical"))
        bad = 1
    if not bad:
        print("not reproduced")
    return bad
