"""Shared clause: the numbers a user configures (maximum step, innovation-filtering threshold) arrive in the generated
C++ filter *exactly* - the generated `Tag::max_dt_sec` / `cpp::Config::innovation_filtering` constants are read back
from the compiled translation unit (symbolic scalar: constants stay exact doubles) and compared with the configured
double.  Used by C06 (threshold), C07 (both sides use the same numbers), C10/C11 (step of the C++ runtime), C12.

The values are chosen to have no short decimal form (1/30, 0.1+0.2, 2.5758293035489, 3e-7), to be numpy scalars
(np.float64) and Python ints - the forms a caller may legitimately pass."""
from __future__ import annotations

import numpy as np
import z3

from engine.vsym import build

from .common import Part, Q, write_replay

CFG_MAIN = r"""
int main(int argc, char** argv) {
  vsym::init(argv[1]);
  vsym::out("cfg_max_dt", S(gen::ExtendedKalmanFilter::Tag::max_dt_sec));
  vsym::out("cfg_k", S(gen::cpp::Config::innovation_filtering));
  using MF = formak::runtime::ManagedFilter<gen::ExtendedKalmanFilter>;
  vsym::out("compatible", S(MF::compatible ? 1.0 : 0.0));
  vsym::finish();
}
"""

VALUES = {
    "third": 1.0 / 3.0,
    "thirtieth": 1.0 / 30.0,
    "sum": 0.1 + 0.2,
    "z99": 2.5758293035489,
    "z999": 3.0902323061678132,
    "tiny": 3e-7,
    "np64": ("np.float64", 0.05),
    "np64k": ("np.float64", 4.25),
    "npmin": ("np.min", [0.125, 0.0625]),
    "int": ("int", 5),
    "default": 0.1,
    "none": None,
}


def make(v):
    if isinstance(v, tuple):
        kind, x = v
        if kind == "np.float64":
            return np.float64(x)
        if kind == "np.min":
            return np.min(np.array(x))
        if kind == "int":
            return int(x)
    return v


def _val(t):
    t = z3.simplify(t)
    return t.numerator_as_long() / t.denominator_as_long() if z3.is_rational_value(t) else None


def task(pid, max_dt_name, k_name, form, tier, seed):
    from corpus import programs as CP

    from .cpph import CppFilter

    part = Part()
    part.program("P1-xy")
    part.fn("cpp.Config", "cpp.Config.ccode", "cpp.compile_ekf", "ast_fragments.EKF_Tag", "ManagedFilter::compatible")
    max_dt, k = make(VALUES[max_dt_name]), make(VALUES[k_name])
    key = f"cpp/config/max_dt={max_dt_name}/k={k_name}/form={form}"
    info = {"kind": "cfgrb", "max_dt": max_dt_name, "k": k_name, "form": form}
    try:
        cf = CppFilter(CP.P1(), ekf=True, cse=True, k=k, max_dt=max_dt, extra_body=CFG_MAIN, extra_includes=["#include <formak/runtime/ManagedFilter.h>"], config_form=form, history=False)
        cf.__enter__()
    except Exception as ex:
        path = write_replay(pid, {"key": key + "/generation", "info": info, "inputs": {}, "exception": f"{type(ex).__name__}: {ex}"})
        part.violation(key + "/generation", f"generation with max_dt_sec={max_dt!r}, innovation_filtering={k!r} ({form} form) raises {type(ex).__name__}: {ex}", path)
        return part.d
    try:
        try:
            cf.compile_concrete()
        except build.BuildError as ex:
            first = [l for l in ex.log.splitlines() if "error" in l][:1]
            path = write_replay(pid, {"key": key + "/compile", "info": info, "inputs": {}, "compiler_log": ex.log[-2500:]})
            part.violation(key + "/compile", f"the filter generated with max_dt_sec={max_dt!r}, innovation_filtering={k!r} ({form} form) does not compile: {first}", path)
            return part.d
        try:
            cf.compile_symbolic()
        except build.BuildError as ex:
            part.harness_error(f"{key}: symbolic build failed: {ex.log[-500:]}")
            return part.d
        leaves, _ = cf.run("")
        l = leaves[0]
        gm, gk, comp = _val(l.out["cfg_max_dt"]), _val(l.out["cfg_k"]), _val(l.out["compatible"])
        wm, wk = float(max_dt), (float(k) if k is not None else 0.0)
        ok = gm == wm and gk == wk and comp == 1.0
        part.record(Q("unsat" if ok else "sat", None, 0.0, ""), f"{key}: generated Tag::max_dt_sec == {wm!r}, Config::innovation_filtering == {wk!r}, runtime compatible")
        if not ok:
            path = write_replay(pid, {"key": key, "info": info, "inputs": {}, "generated": {"max_dt_sec": gm, "innovation_filtering": gk, "compatible": comp}})
            what = []
            if gm != wm:
                what.append(f"the C++ runtime would step with max_dt_sec={gm!r} although {wm!r} was configured")
            if gk != wk:
                what.append(f"the generated filter discards with threshold {gk!r} although {wk!r} was configured")
            if comp != 1.0:
                what.append("ManagedFilter::compatible is false")
            part.violation(key, "; ".join(what), path)
    finally:
        cf.__exit__(None, None, None)
    part.sample({"impl": "c++ config", "max_dt": repr(max_dt), "k": repr(k), "form": form})
    return part.d


def combos(tier):
    quick = [("third", "z99", "object"), ("thirtieth", "tiny", "dict"), ("np64", "np64k", "object"), ("sum", "int", "dict")]
    if tier == "quick":
        return quick
    return quick + [("npmin", "z999", "object"), ("default", "none", "dict"), ("default", "none", "object"), ("thirtieth", "z999", "object"), ("sum", "np64k", "dict")]


def replay(pid, info):
    d = task(pid, info["max_dt"], info["k"], info["form"], "quick", 0)
    print(d["violations"])
    return 1 if d["violations"] else 0
