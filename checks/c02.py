"""C02 - generated C++ computes the symbolic model, its derivatives and noise matrices (E2)."""
from __future__ import annotations

import json
from fractions import Fraction
import random

import z3

from corpus import programs as CP
from engine.symreal import expr as X
from engine.symreal.core import qval
from engine.vsym import build

from . import pyh
from .common import Part, Q, Report, approx_equal, finish, pmap, solve, tier_timeout_ms, write_replay
from .cpph import CppFilter
from .oblig import prove_equal, reach

PID = "C02"


def spec_pieces(p, env):
    ss, sc = p.s_state(), p.s_control()
    f, aU = pyh.spec_update(p, env)
    G, aG = pyh.spec_jacobian(p, p.update, ss, ss, env)
    V, aV = pyh.spec_jacobian(p, p.update, ss, sc, env)
    assumes = aU + aG + aV
    sens = {}
    for key in p.sensors:
        rs = p.s_readings(key)
        h, aH = pyh.spec_sensor(p, key, env)
        H, aJ = pyh.spec_jacobian(p, p.sensors[key], rs, ss, env)
        sens[key] = (h, H)
        assumes += aH + aJ
    return f, G, V, sens, assumes


def float_spec(p, what, e):
    """Float value of the specification for an output name of the driver."""
    ss, sc = p.s_state(), p.s_control()
    kind = what[0]
    if kind == "zero":
        return 0.0
    if kind == "one":
        return 1.0
    if kind == "f":
        return X.evalf(p.update[what[1]], e)
    if kind == "G":
        return X.evalf(X.diff(p.update[ss[what[1]]], ss[what[2]]), e)
    if kind == "V":
        return X.evalf(X.diff(p.update[ss[what[1]]], sc[what[2]]), e)
    if kind == "M":
        return float(p.process_noise[sc[what[1]]]) if what[1] == what[2] else 0.0
    key = what[1]
    rs = p.s_readings(key)
    if kind == "h":
        return X.evalf(p.sensors[key][what[2]], e)
    if kind == "H":
        return X.evalf(X.diff(p.sensors[key][rs[what[2]]], ss[what[3]]), e)
    if kind == "Q":
        return float(p.sensor_noise[key][rs[what[2]]]) if what[2] == what[3] else 0.0
    if kind == "rd":
        return float(e[f"z_{key}_{what[2]}"])
    raise KeyError(what)


def task(p, cse, ekf, tier, seed):
    part = Part()
    part.program(p.id)
    part.fn("cpp.compile_ekf" if ekf else "cpp.compile", "cpp.header_from_ast", "cpp.source_from_ast", "cpp.BasicBlock.compile", "ast_fragments.*", "ast_tools.*", "templates/process_model.cpp", "templates/sensor_model.hpp")
    env = pyh.input_env(p)
    for key in p.sensors:
        for r in p.sensors[key]:
            env[f"z_{key}_{r}"] = z3.Real(f"z_{key}_{r}")
    f, G, V, sens, assumes = spec_pieces(p, env)
    ss, sc = p.s_state(), p.s_control()
    n, nc = len(ss), len(sc)
    tmo = tier_timeout_ms(tier)
    key_base = f"{p.id}/cse={int(cse)}/{'ekf' if ekf else 'model'}"
    info = {"program": p.id, "cse": cse, "ekf": ekf}
    try:
        cf = CppFilter(p, ekf=ekf, cse=cse, k=5.0)
        cf.__enter__()
    except Exception as ex:
        e0 = pyh.seeded_points(list(env), seed, 1)[0]
        path = write_replay(PID, {"key": key_base + "/generation", "info": info, "inputs": e0, "exception": f"{type(ex).__name__}: {ex}"})
        part.violation(key_base + "/generation", f"C++ generation raises {type(ex).__name__}: {ex} for an accepted model", path)
        return part.d
    try:
        # "compile" clause: the generated text must compile with plain double (concrete twin)
        try:
            cf.compile_concrete()
        except build.BuildError as ex:
            path = write_replay(PID, {"key": key_base + "/compile", "info": info, "inputs": {}, "compiler_log": ex.log[-3000:]})
            part.violation(key_base + "/compile", f"generated C++ does not compile: {ex.log.strip().splitlines()[0] if ex.log.strip() else ex}", path)
            return part.d
        part.record(Q("unsat", None, 0.0, ""), f"{key_base}: generated header+source compile (g++ -std=c++17, plain double; decided by the compiler)")
        try:
            cf.compile_symbolic()
        except build.BuildError as ex:
            part.harness_error(f"{key_base}: symbolic build failed although the concrete build succeeded: {ex.log[-800:]}")
            return part.d
        allv = dict(env)

        def mk_replay(scenario, oname, what):
            def replay(e):
                e = dict(e)
                for nm in env:
                    e.setdefault(nm, 0.5)
                _add_cov_defaults(p, e)
                outs, _, _ = cf.run_concrete(scenario, e)
                return {"impl": outs[oname], "spec": float_spec(p, what, e)}

            return replay

        def oblige(scenario, leaf, oname, spec_t, what, label, extra=()):
            if oname not in leaf.out:
                part.harness_error(f"{key_base}: output {oname} missing in scenario {scenario}")
                return
            prove_equal(part, PID, f"{key_base}/{label}", leaf.out[oname], spec_t, assumes + list(extra), tmo, replay=mk_replay(scenario, oname, what), key=f"{key_base}/{label}", info=dict(info, scenario=scenario, output=oname, what=list(what)), all_vars=allv)

        if not ekf:
            leaves, _ = cf.run("")
            part.leaves_n(len(leaves))
            if not leaves:
                part.harness_error(f"{key_base}: model driver produced no leaf")
                return part.d
            # switching functions (Piecewise ternaries) fork the generated code: every feasible path is an obligation
            nfeas = 0
            for li, leaf in enumerate(leaves):
                if len(leaves) > 1 and solve(assumes + leaf.pc, 5000).status == "unsat":
                    continue
                nfeas += 1
                for s in ss:
                    oblige("", leaf, f"f_{s}", f[s], ("f", s), f"Model::model[{s}]" + (f"/path{leaf.decisions}" if len(leaves) > 1 else ""), extra=leaf.pc)
            if nfeas == 0:
                part.harness_error(f"{key_base}: no feasible path in the model driver")
            part.sample({"program": p.id, "mode": "model", "cse": cse, "f": {s: str(leaves[0].out[f"f_{s}"])[:120] for s in ss[:2]}})
            return part.d

        leaves, _ = cf.run("pm")
        part.leaves_n(len(leaves))
        if not leaves:
            part.harness_error(f"{key_base}: pm scenario produced no leaf")
            return part.d
        # switching functions (sign / Piecewise ternaries) fork the generated code: one set of obligations per feasible path
        multi_pm = len(leaves) > 1
        for l in leaves:
            if multi_pm and solve(assumes + l.pc, 5000).status == "unsat":
                continue
            sfx = f"/path{l.decisions}" if multi_pm else ""
            for s in ss:
                oblige("pm", l, f"f_{s}", f[s], ("f", s), f"ProcessModel::model[{s}]" + sfx, extra=l.pc)
            for i in range(n):
                for j in range(n):
                    oblige("pm", l, f"G_{i}_{j}", G[i][j], ("G", i, j), f"process_jacobian[d {ss[i]}/d {ss[j]}]" + sfx, extra=l.pc)
                for j in range(nc):
                    oblige("pm", l, f"V_{i}_{j}", V[i][j], ("V", i, j), f"control_jacobian[d {ss[i]}/d {sc[j]}]" + sfx, extra=l.pc)
            for i in range(nc):
                for j in range(nc):
                    want = qval(p.process_noise[sc[i]]) if i == j else z3.RealVal(0)
                    oblige("pm", l, f"M_{i}_{j}", want, ("M", i, j), f"process noise[{sc[i]},{sc[j]}]" + sfx, extra=l.pc)
        part.sample({"program": p.id, "mode": "ekf", "cse": cse, "G_0_0": str(l.out.get("G_0_0"))[:160]})
        for key in p.s_sensors():
            rs = p.s_readings(key)
            m = len(rs)
            h, H = sens[key]
            leaves, _ = cf.run(f"sm:{key}")
            part.leaves_n(len(leaves))
            if not leaves:
                part.harness_error(f"{key_base}: sm:{key} produced no leaf")
                continue
            sc_name = f"sm:{key}"
            multi_sm = len(leaves) > 1
            for l in leaves:
                if multi_sm and solve(assumes + l.pc, 5000).status == "unsat":
                    continue
                sfx = f"/path{l.decisions}" if multi_sm else ""
                for r in rs:
                    oblige(sc_name, l, f"h_{r}", h[r], ("h", key, r), f"{key}.SensorModel::model[{r}]" + sfx, extra=l.pc)
                    oblige(sc_name, l, f"rd_{r}", env[f"z_{key}_{r}"], ("rd", key, r), f"{key}.reading accessor[{r}]" + sfx, extra=l.pc)
                for i in range(m):
                    for j in range(n):
                        oblige(sc_name, l, f"H_{i}_{j}", H[i][j], ("H", key, i, j), f"{key}.jacobian[d {rs[i]}/d {ss[j]}]" + sfx, extra=l.pc)
                    for j in range(m):
                        want = qval(p.sensor_noise[key][rs[i]]) if i == j else z3.RealVal(0)
                        oblige(sc_name, l, f"Q_{i}_{j}", want, ("Q", key, i, j), f"{key}.noise[{rs[i]},{rs[j]}]" + sfx, extra=l.pc)
            l = leaves[0]
            sz = l.out.get("size")
            ok = sz is not None and z3.is_rational_value(z3.simplify(sz)) and z3.simplify(sz).numerator_as_long() == m
            part.record(Q("unsat" if ok else "sat", None, 0.0, ""), f"{key_base}/{key}.size == {m}")
            if not ok:
                part.harness_error(f"{key_base}: {key}::size is {sz}, expected {m}")
        # defaults: State() zero, Covariance() identity, named diag accessors
        leaves, _ = cf.run("defaults")
        l = leaves[0]
        for s in ss:
            for pre in ("s0_", "s1_"):
                oblige("defaults", l, f"{pre}{s}", z3.RealVal(0), ("zero",), f"default State[{s}]==0")
        for i in range(n):
            for j in range(n):
                oblige("defaults", l, f"c0_{i}_{j}", z3.RealVal(1 if i == j else 0), ("one",) if i == j else ("zero",), f"default Covariance[{ss[i]},{ss[j]}]=={int(i == j)}")
            oblige("defaults", l, f"c0diag_{ss[i]}", z3.RealVal(1), ("one",), f"default Covariance.{ss[i]}()==1 (unit variance)")
        # the same scenario in the plain-double build: default-initialised Options objects over dirty memory read back as zeros
        try:
            cf.compile_concrete()
            e0 = {nm: 0.5 for nm in env}
            _add_cov_defaults(p, e0)
            douts, _, _ = cf.run_concrete("defaults", e0)
            badd = sorted(nm for nm, v in douts.items() if nm.startswith(("s2_", "r0_")) and not (v == 0.0))
            part.record(Q("sat" if badd else "unsat", None, 0.0, ""), f"{key_base}/defaults: default-initialised Options objects (over 0xFF-filled memory) construct all-zero State / readings (plain-double build)")
            if badd:
                path = write_replay(PID, {"key": key_base + "/defaults-options", "info": dict(info, scenario="defaults", output=badd[0], what=["zero"]), "inputs": e0, "bad": {nm: repr(douts[nm]) for nm in badd[:6]}})
                part.violation(key_base + "/defaults-options", f"a default-initialised Options object does not default its members to zero: {[(nm, douts[nm]) for nm in badd[:4]]}", path)
        except build.BuildError as ex:
            part.d["inconclusive"].append(f"{key_base}/defaults (plain-double build): {str(ex)[:120]}")
        reach(part, key_base + "/assumptions-sat", assumes)
    finally:
        cf.__exit__(None, None, None)
    return part.d


def _add_cov_defaults(p, e):
    ss = p.s_state()
    for i, a in enumerate(ss):
        for b in ss[i:]:
            e.setdefault(f"P_{a}_{b}", 1.0 if a == b else 0.0)
    for key in p.sensors:
        for r in p.sensors[key]:
            e.setdefault(f"z_{key}_{r}", 0.25)


def _leaves_n(self, n):
    self.d["paths"]["leaves"] += n


Part.leaves_n = _leaves_n


def configs(tier, seed):
    out = []
    if tier == "quick":
        for p in CP.presence_variants(CP.P3()):
            out.append((p, True, True))
        out.append((CP.P3(), False, True))
        out.append((CP.P8(), True, True))
        out.append((CP.with_noise(CP.P8(), process={"u": 0.0}, sensor={"wide": {"r2": 0.0}}, pid="P8-wide-zero-noise"), True, True))
        out.append((CP.P3(), True, False))
        out.append((CP.P1(), False, False))
        out.append((CP.P17(), True, True))
        out.append((CP.with_noise(CP.P3(), process={"a": Fraction(1, 4), "u": Fraction(3, 8)}, sensor={"one": {"r": Fraction(1, 8)}}, pid="P3-nl3-rational-noise"), True, True))
        out.append((CP.P21(), True, True))
        out.append((CP.P22(), True, True))
        out.append((CP.P23(), True, True))
        out.append((CP.P24(), True, True))
        out.append((CP.P28(), True, True))
        out.append((CP.P30(), True, True))
        out.append((CP.P29(), True, True))
        out.append((CP.P31(), True, True))
        out.append((CP.P11(), True, False))  # inverse-function compositions, Model mode
        out.append((CP.P18(), True, False))  # Piecewise / Max / Min, Model mode (path per switch)
        return out
    progs = [CP.P1(), CP.P2(), CP.P7(), CP.P8()] + CP.presence_variants(CP.P3()) + CP.presence_variants(CP.P10())
    progs += [CP.P3().restrict(sensors=[]), CP.P3().restrict(sensors=["one"]), CP.P12(), CP.P17(), CP.P19(), CP.P20(), CP.P21(), CP.P22(), CP.P23(), CP.P24(), CP.P28(), CP.P29(), CP.P30(), CP.P31()]
    progs += [CP.with_noise(CP.P8(), process={"u": 0.0}, sensor={"wide": {"r2": 0.0}}, pid="P8-wide-zero-noise"), CP.with_noise(CP.P3(), process={"a": 0.0}, sensor={"two": {"q": 0.0}, "one": {"r": 0.0}}, pid="P3-nl3-zero-noise")]
    progs += [CP.random_program(seed, i) for i in range(8)]
    for p in progs:
        for cse in (True, False):
            out.append((p, cse, True))
        out.append((p, True, False))
    out.append((CP.P11(), True, False))  # abs / inverse-function compositions: Model mode only (abs is not differentiable)
    out.append((CP.P11(), False, False))
    out.append((CP.P18(), True, False))
    out.append((CP.P18(), False, False))
    out.append((CP.with_noise(CP.P3(), process={"a": Fraction(1, 4), "u": Fraction(3, 8)}, sensor={"one": {"r": Fraction(1, 8)}}, pid="P3-nl3-rational-noise"), True, True))
    return out


def run(tier, seed):
    rep = Report(PID, tier, seed, "translation_validation")
    cfgs = configs(tier, seed)
    for d in pmap(task, [(p, cse, ekf, tier, seed) for p, cse, ekf in cfgs]):
        rep.merge(d)
    rep.bounds = {"configurations": [f"{p.id}/cse={int(c)}/{'ekf' if e else 'model'}" for p, c, e in cfgs], "inputs": "all real dt/state/control/calibration/readings where the expressions are defined; noise values are the concrete numbers printed into the source", "compile_clause": "decided by g++ -std=c++17 on the generated text with plain double and the stand-in Eigen/Dense, not by SMT", "outside": "real Eigen; -Wall -Wextra -Werror; floating-point rounding"}
    rep.assumptions = ["stand-in Eigen/Dense (fixed-size, row-major, poison default construction)", "#define double vsym::Sym over the generated header/source and formak headers", "harness differentiator"]
    return finish(
        rep,
        explanation="The C++ text generated from the current tree is compiled with double replaced by a symbolic scalar and executed; every named output (state update, process/control/sensor Jacobian entries, noise matrices, sensor predictions, accessors, defaults) is an SMT term that is proved equal to the specification for all inputs; unassigned entries surface as free poison variables.",
        rule="one obligation per (configuration, generated function, output entry)",
        trusted_base=["z3 5.1", "engine/vsym (sym.h, Eigen stand-in, loader)", "g++ 12", "harness differentiator"],
    )


def replay(path):
    with open(path) as f:
        r = json.load(f)
    info = r["info"]
    ps = {}
    for p, _, _ in configs("thorough", int(r.get("seed", 0))) + configs("quick", 0):
        ps[p.id] = p
    p = ps[info["program"]]
    if "compiler_log" in r or "exception" in r and "scenario" not in info:
        try:
            with CppFilter(p, ekf=info["ekf"], cse=info["cse"]) as cf:
                cf.compile_concrete()
        except Exception as ex:
            print(f"REPRODUCED: {type(ex).__name__}: {ex}\n{getattr(ex, 'log', '')[-1500:]}")
            return 1
        print("not reproduced")
        return 0
    e = dict(r["inputs"])
    for nm in pyh.input_env(p):
        e.setdefault(nm, 0.5)
    _add_cov_defaults(p, e)
    with CppFilter(p, ekf=info["ekf"], cse=info["cse"]) as cf:
        outs, _, _ = cf.run_concrete(info["scenario"], e)
    what = tuple(info["what"])
    got = outs[info["output"]]
    want = float_spec(p, what, e)
    print("got", got, "want", want)
    if not approx_equal(got, want):
        print("REPRODUCED")
        return 1
    print("not reproduced")
    return 0
