"""C11, C++ side: the real ManagedFilter.h tick with a UF stand-in Impl, compared per leaf with the reference fold."""
from __future__ import annotations

import z3

from engine.symreal.core import explore, qval
from engine.vsym import build, runtime_drivers as RD

from .common import Part, Q, dyadic_box, solve, tier_timeout_ms, write_replay
from .oblig import env_from_model

PID = "C11"


def _build(d, keys, control, cal, max_dt, concrete=False, use_readings=None):
    from .c11 import SENSOR_ID

    RD.write_standin(d)
    sids = [SENSOR_ID[k] for k in keys]
    return build.compile_driver(d, RD.MAIN, includes=RD.INCLUDES, concrete=concrete, extra_flags=RD.flags(control=control, cal=cal, max_dt=max_dt, sids=sids, use_readings=use_readings), name="c11")


def cpp_trace(keys, control, cal, max_dt, e, use_readings=None):
    """Concrete C++ run with the tracing stand-in -> trace tuple like c11.TraceFilter's."""
    from .c11 import SENSOR_ID

    inv = {v: k for k, v in SENSOR_ID.items()}
    d = build.workdir("c11r")
    try:
        exe = _build(d, keys, control, cal, max_dt, concrete=True, use_readings=use_readings)
        ins = {"t0": e["t0"], "out": e["out"], "s0": 0.0, "P0": 0.0, "cal": 0.0, "u": 0.5}
        for i in range(len(keys)):
            ins[f"ts{i}"] = e[f"ts{i}"]
            ins[f"v{i}"] = e[f"v{i}"]
        outs, _, notes = build.run_concrete(exe, d, ins)
    finally:
        build.cleanup(d)
    tr = []
    it = iter(notes)
    for nt in it:
        t = nt.split()
        if t[0] == "P":
            tr.append(("P", float(t[1])))
        elif t[0] == "S":
            v = next(it).split()
            tr.append(("S", inv[int(float(t[1]))], float(v[1])))
    return tuple(tr), outs["held_time"]


def cpp_task(keys, K, control, cal, tier, seed):
    from . import c11

    part = Part()
    part.program("ManagedFilter.h")
    part.fn("ManagedFilter<Impl>::tick (4 overloads)", "ManagedFilter<Impl>::processUpdate", "ManagedFilter<Impl>::wrap")
    r = len(keys)
    max_dt = c11.MAX_DT
    key_base = f"cpp/readings={''.join(keys) or '-'}/K={K}/control={int(control)}/cal={int(cal)}"
    d = build.workdir("c11")
    try:
        try:
            exe = _build(d, keys, control, cal, max_dt, use_readings=(r > 0))
        except build.BuildError as ex:
            part.harness_error(f"{key_base}: build failed: {ex.log[-800:]}")
            return part.d
        leaves, cuts = build.run_symbolic(exe, d, "c11", kmax=K, extra_decls=RD.UF_DECLS, timeout=1200)
    finally:
        build.cleanup(d)
    t0, out = z3.Real("t0"), z3.Real("out")
    ts = [z3.Real(f"ts{i}") for i in range(r)]
    vals = [z3.Real(f"v{i}") for i in range(r)]
    s0, P0, u = z3.Real("s0"), z3.Real("P0"), z3.Real("u")
    allt = [t0, out] + ts
    assumes = [z3.And(t >= -100, t <= 100) for t in allt]
    tmo = tier_timeout_ms(tier)
    feas = [l for l in leaves if solve(assumes + l.pc, 5000).status != "unsat"]
    part.d["paths"]["leaves"] += len(feas)
    part.d["paths"]["cut"] += cuts
    part.extra("cpp_infeasible_leaves_discarded", len(leaves) - len(feas))
    from engine.symreal.core import SymReal

    control_v = SymReal(u) if control else None
    reported = False
    n_ok = 0
    n_total = 0
    for l in feas:
        # reference fold explored under this leaf's path condition
        def ref():
            return c11.ref_tick((t0, s0, P0), [(ts[i], keys[i], vals[i]) for i in range(r)], out, max_dt, control_v)

        rls = explore(ref, assumes=assumes + l.pc, kmax=K + 1, max_paths=200)
        for rl in rls:
            if rl.status == "cut":
                continue  # reference needs more than K+1 steps here: outside the bound
            if rl.status != "ok":
                part.harness_error(f"{key_base}: reference fold failed: {rl}")
                continue
            (rs, rP), (ht, hs, hP) = rl.value
            pc = assumes + l.pc + rl.pc
            if solve(pc, 5000).status == "unsat":
                continue
            claims = [("returned state", l.out["ret_state"], rs), ("returned covariance", l.out["ret_cov"], rP), ("held time", l.out["held_time"], ht), ("held state", l.out["held_state"], hs), ("held covariance", l.out["held_cov"], hP)]
            for nm, a, b in claims:
                n_total += 1
                q = Q("unsat", None, 0.0, "") if a.eq(b) else solve(pc + [a != b], tmo)
                part.d["queries"][q.status] += 1
                part.d["solver_s"] += q.secs
                if q.status == "unsat":
                    n_ok += 1
                elif q.status == "unknown":
                    part.d["inconclusive"].append(f"{key_base}/leaf{l.decisions}: {nm}")
                elif not reported:
                    vars_ = {v.decl().name(): v for v in allt + vals}
                    cands = []
                    q2 = solve(pc + [a != b] + dyadic_box(vars_, -4, 4, 64), 10000)
                    if q2.status == "sat":
                        cands.append(env_from_model(q2.model, vars_))
                    cands.append(env_from_model(q.model, vars_))
                    for e in cands:
                        part.d["witnesses"] += 1
                        got_tr, got_held = cpp_trace(keys, control, cal, max_dt, e, use_readings=(r > 0))
                        t, tr = float(e["t0"]), ()
                        for i, k in enumerate(keys):
                            tr = c11.float_ref_propagate(t, tr, float(e[f"ts{i}"]), max_dt)
                            tr = tr + (("S", k, float(e[f"v{i}"])),)
                            t = float(e[f"ts{i}"])
                        want_tr = c11.float_ref_propagate(t, tr, float(e["out"]), max_dt)
                        if c11.traces_differ(got_tr, want_tr) or abs(got_held - t) > 1e-12:
                            key = f"cpp/tick/readings={len(keys)}"
                            path = write_replay(PID, {"key": key, "info": {"kind": "cpp", "keys": list(keys), "control": control, "cal": cal}, "inputs": e, "got": [got_tr, got_held], "want": [want_tr, t], "clause": nm})
                            part.violation(key, f"C++ tick differs from the fold of readings ({nm}) at {e}: calls {got_tr} expected {want_tr}", path)
                            reported = True
                            break
                    else:
                        part.d["inconclusive"].append(f"{key_base}/leaf{l.decisions}: {nm} sat, not reproduced")
    part.d["obligations"].append({"name": f"{key_base}: 5 clauses x feasible (C++ leaf, reference leaf) pairs = {n_total}", "status": "unsat" if n_ok == n_total else "mixed", "s": 0})
    if n_total == 0:
        part.harness_error(f"{key_base}: nothing compared")
    part.sample({"impl": "c++", "readings": list(keys), "K": K, "feasible_leaves": len(feas), "raw_leaves": len(leaves), "cut": cuts})
    return part.d


def negative_compile_task(cal, neg_readings, tier, seed):
    """A model with control inputs cannot be ticked without them: the control-free overloads must not compile."""
    part = Part()
    part.program("ManagedFilter.h")
    d = build.workdir("c11n")
    key = f"cpp/control-required/cal={int(cal)}/readings={int(neg_readings)}"
    try:
        RD.write_standin(d)
        fl = RD.flags(control=True, cal=cal, max_dt=0.1, neg_readings=neg_readings)
        exe, log = build.compile_driver(d, RD.NEGATIVE_MAIN, includes=RD.INCLUDES, concrete=True, extra_flags=fl, name="neg", expect_fail=True)
        rejected = exe is None
        part.record(Q("unsat" if rejected else "sat", None, 0.0, ""), f"{key}: control-free tick on an Impl with control inputs is rejected by the compiler")
        if rejected and "static assertion failed" not in log and "static_assert" not in log:
            part.extra("negative_compile_note", [f"{key}: rejected, but not by the static_assert: {log.strip().splitlines()[0][:200] if log.strip() else ''}"])
        if not rejected:
            path = write_replay(PID, {"key": "cpp/tick/control-required", "info": {"kind": "cpp-negative", "cal": cal, "neg_readings": neg_readings}, "inputs": {}})
            part.violation("cpp/tick/control-required", "ManagedFilter::tick without control compiles for an Impl that has control inputs", path)
        # positive twin: the same driver with the right overload compiles (guards against a vacuous rejection)
        exe2, log2 = build.compile_driver(d, RD.MAIN, includes=RD.INCLUDES, concrete=True, extra_flags=RD.flags(control=True, cal=cal, max_dt=0.1), name="pos", expect_fail=True)
        if exe2 is None:
            part.harness_error(f"{key}: positive twin does not compile: {log2[-500:]}")
    finally:
        build.cleanup(d)
    return part.d


def tasks(tier, seed):
    t = [(negative_compile_task, (False, False, tier, seed)), (negative_compile_task, (True, True, tier, seed))]
    if tier == "quick":
        combos = [((), 2, True, True), ((), 2, False, False), (("a",), 1, True, False), (("a",), 1, False, True), (("a", "b"), 1, False, False)]
    else:
        combos = [((), 3, c, k) for c in (True, False) for k in (True, False)]
        combos += [(("a",), 2, c, k) for c in (True, False) for k in (True, False)]
        combos += [(("a", "b"), 1, True, True), (("a", "b"), 1, False, False), (("b", "a"), 2, False, True), (("a", "b", "a"), 1, False, False)]
    return t + [(cpp_task, (keys, K, c, k, tier, seed)) for keys, K, c, k in combos]


def replay(r):
    from . import c11

    info = r["info"]
    if info["kind"] == "cpp-negative":
        d = build.workdir("c11n")
        try:
            RD.write_standin(d)
            exe, log = build.compile_driver(d, RD.NEGATIVE_MAIN, includes=RD.INCLUDES, concrete=True, extra_flags=RD.flags(control=True, cal=info["cal"], max_dt=0.1, neg_readings=info["neg_readings"]), name="neg", expect_fail=True)
        finally:
            build.cleanup(d)
        if exe is not None:
            print("REPRODUCED: compiles")
            return 1
        print("not reproduced")
        return 0
    e = r["inputs"]
    keys = info["keys"]
    got_tr, got_held = cpp_trace(keys, info["control"], info["cal"], c11.MAX_DT, e, use_readings=(len(keys) > 0))
    t, tr = float(e["t0"]), ()
    for i, k in enumerate(keys):
        tr = c11.float_ref_propagate(t, tr, float(e[f"ts{i}"]), c11.MAX_DT)
        tr = tr + (("S", k, float(e[f"v{i}"])),)
        t = float(e[f"ts{i}"])
    want = c11.float_ref_propagate(t, tr, float(e["out"]), c11.MAX_DT)
    print("got ", got_tr, got_held)
    print("want", want, t)
    if c11.traces_differ(got_tr, want) or abs(got_held - t) > 1e-12:
        print("REPRODUCED")
        return 1
    print("not reproduced")
    return 0
