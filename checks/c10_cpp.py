"""C10, C++ side: the real ManagedFilter.h tick/processUpdate on symbolic times with a recording Impl (E2)."""
from __future__ import annotations

import re

import z3

from engine.symreal.core import qval
from engine.vsym import build, runtime_drivers as RD

from .common import Part, Q, dyadic_box, solve, tier_timeout_ms, write_replay
from .oblig import env_from_model

PID = "C10"
TOL = 1e-9
# the C++ folds k * max_dt in double arithmetic while the sum of the recorded steps is taken
# in exact rationals here: the two differ by a few ulps of the time difference (<= 1e-13 for
# |dt| <= 2000), so the solver claim carries that slack; the float replay uses 1e-9 itself
SLACK = 1e-12


def build_standin(d, *, control, cal, max_dt, sids=(), concrete=False, use_readings=None):
    RD.write_standin(d)
    return build.compile_driver(d, RD.MAIN, includes=RD.INCLUDES, concrete=concrete, extra_flags=RD.flags(control=control, cal=cal, max_dt=max_dt, sids=sids, use_readings=use_readings), name=f"rt_{int(control)}{int(cal)}_{len(sids)}")


def leaf_legs(outs):
    """Split the recorded process_model dts into legs at the recorded sensor_model calls (call counter order)."""
    ev = []
    for nm in outs:
        m = re.match(r"(dt|sens)(\d+)$", nm)
        if m:
            ev.append((int(m.group(2)), m.group(1), outs[nm]))
    legs, cur = [], []
    for _, kind, v in sorted(ev, key=lambda t: t[0]):
        if kind == "sens":
            legs.append(cur)
            cur = []
        else:
            cur.append(v)
    legs.append(cur)
    return legs


def float_steps_cpp(control, cal, max_dt, t0, t1, ts=()):
    d = build.workdir("c10r")
    try:
        exe = build_standin(d, control=control, cal=cal, max_dt=max_dt, concrete=True, sids=[1] * len(ts))
        ins = {"t0": t0, "out": t1, "s0": 0.0, "P0": 0.0, "cal": 0.0, "u": 0.0}
        for i, t in enumerate(ts):
            ins[f"ts{i}"] = t
            ins[f"v{i}"] = 1.0
        outs, _, _ = build.run_concrete(exe, d, ins)
    finally:
        build.cleanup(d)
    return leaf_legs(outs)


def cpp_task(control, cal, max_dt, K, tier, seed, nread=0):
    from .c10 import violates_legs

    part = Part()
    part.program("ManagedFilter.h")
    part.fn("ManagedFilter<Impl>::tick", "ManagedFilter<Impl>::processUpdate")
    key_base = f"cpp/control={int(control)}/cal={int(cal)}/max_dt={max_dt}/K={K}/readings={nread}"
    variant = f"control={int(control)}/cal={int(cal)}"
    d = build.workdir("c10")
    try:
        try:
            exe = build_standin(d, control=control, cal=cal, max_dt=max_dt, sids=[1] * nread)
        except build.BuildError as ex:
            # confirm with plain double before reporting
            try:
                build_standin(d, control=control, cal=cal, max_dt=max_dt, concrete=True)
                part.harness_error(f"{key_base}: symbolic build fails but plain-double build succeeds: {ex.log[-600:]}")
            except build.BuildError as ex2:
                path = write_replay(PID, {"key": f"cpp/instantiate/{variant}", "info": {"kind": "cpp-compile", "control": control, "cal": cal, "max_dt": max_dt}, "inputs": {}, "compiler_log": ex2.log[-3000:]})
                first = [l for l in ex2.log.splitlines() if "error" in l][:1]
                part.violation(f"cpp/instantiate/{variant}", f"ManagedFilter<Impl>::tick cannot be instantiated for an Impl with {variant}: {first}", path)
            return part.d
        leaves, cuts = build.run_symbolic(exe, d, "c10", kmax=K, extra_decls=RD.UF_DECLS)
    finally:
        build.cleanup(d)
    t0, t1 = z3.Real("t0"), z3.Real("out")
    tsv = [z3.Real(f"ts{i}") for i in range(nread)]
    md = qval(max_dt)
    assumes = [t0 >= -1000, t0 <= 1000, t1 >= -1000, t1 <= 1000] + [z3.And(t >= -1000, t <= 1000) for t in tsv]
    delta = t1 - (tsv[-1] if tsv else t0)
    tmo = tier_timeout_ms(tier)
    feas = [l for l in leaves if solve(assumes + l.pc, 5000).status != "unsat"]
    part.d["paths"]["leaves"] += len(feas)
    part.d["paths"]["cut"] += cuts
    part.extra("cpp_infeasible_leaves_discarded", len(leaves) - len(feas))
    reported = False
    kinds = {"forward": 0, "backward": 0, "none": 0}
    for li, l in enumerate(feas):
        legs = leaf_legs(l.out)
        dts = legs[-1]
        pc = assumes + l.pc
        if not dts:
            kinds["none"] += 1
        else:
            if solve(pc + [delta > 0], 3000).status == "sat":
                kinds["forward"] += 1
            if solve(pc + [delta < 0], 3000).status == "sat":
                kinds["backward"] += 1
        claims = []
        cur = t0
        for gi, (target, leg) in enumerate(zip(tsv + [t1], legs)):
            dl = target - cur
            for i, dv in enumerate(leg):
                claims.append((f"leg{gi} step{i} points in the direction of travel", z3.And(z3.Implies(dl > 0, dv > 0), z3.Implies(dl < 0, dv < 0), z3.Implies(dl == 0, False))))
                claims.append((f"leg{gi} |step{i}| <= max_dt", z3.And(dv <= md, -dv <= md)))
            tot = z3.RealVal(0)
            for dv in leg:
                tot = tot + dv
            claims.append((f"leg{gi} sum of steps within 1e-9 of the time difference", z3.And(tot - dl <= qval(TOL) + qval(SLACK), dl - tot <= qval(TOL) + qval(SLACK))))
            cur = target
        nsteps = sum(len(g) for g in legs)
        for nm, cl in claims:
            q = solve(pc + [z3.Not(cl)], tmo)
            part.record(q, f"{key_base}/leaf{l.decisions or '-'}[{nsteps} steps]: {nm}")
            if q.status == "sat" and not reported:
                vars_ = {"t0": t0, "out": t1}
                for i, t in enumerate(tsv):
                    vars_[f"ts{i}"] = t
                cands = []
                q2 = solve(pc + [z3.Not(cl)] + dyadic_box(vars_, -8, 8, 16), 10000)
                if q2.status == "sat":
                    cands.append(env_from_model(q2.model, vars_))
                cands.append(env_from_model(q.model, vars_))
                for e in cands:
                    part.d["witnesses"] += 1
                    tsf = [e[f"ts{i}"] for i in range(nread)]
                    got = float_steps_cpp(control, cal, max_dt, e["t0"], e["out"], tsf)
                    probs = violates_legs(e["t0"], e["out"], max_dt, tsf, got)
                    if probs:
                        direction = "backward" if e["out"] < e["t0"] else "forward"
                        key = f"cpp/processUpdate/{direction}/{variant}" if nread == 0 else f"cpp/tick-with-reading/{direction}/{variant}"
                        path = write_replay(PID, {"key": key, "info": {"kind": "cpp", "control": control, "cal": cal, "max_dt": max_dt}, "inputs": {"t0": e["t0"], "t1": e["out"]}, "ts": tsf, "steps": got, "problems": probs})
                        part.violation(key, f"C++ runtime ({variant}, max_dt={max_dt}): t0={e['t0']} readings at {tsf} -> t1={e['out']}: steps per leg {got}: {probs[0]}", path)
                        reported = True
                        break
                else:
                    part.d["inconclusive"].append(f"{key_base}/leaf{l.decisions}: {nm} sat, not reproduced")
    for k_, v in kinds.items():
        if v == 0 and not reported:
            part.harness_error(f"{key_base}: vacuity: no feasible leaf of kind {k_}")
    part.sample({"impl": "c++", "variant": variant, "max_dt": max_dt, "K": K, "feasible_leaves": len(feas), "cut": cuts})
    return part.d


CFG_MAIN = r"""
int main(int argc, char** argv) {
  vsym::init(argv[1]);
  vsym::out("cfg_max_dt", S(gen::ExtendedKalmanFilter::Tag::max_dt_sec));
  using MF = formak::runtime::ManagedFilter<gen::ExtendedKalmanFilter>;
  vsym::out("compatible", S(MF::compatible ? 1.0 : 0.0));
  vsym::finish();
}
"""


def cfg_task(max_dt, tier, seed):
    """'for any configured maximum step': the step the C++ runtime uses is the generated Tag::max_dt_sec, which must be
    exactly the configured double (and positive, so that the compatibility check passes)."""
    from corpus import programs as CP

    from .cpph import CppFilter

    part = Part()
    part.program("P1-xy")
    part.fn("cpp.Config.ccode", "ast_fragments.EKF_Tag", "ManagedFilter::compatible")
    p = CP.P1()
    key = f"cpp/configured-max_dt={max_dt!r}"
    try:
        cf = CppFilter(p, ekf=True, cse=True, k=None, max_dt=max_dt, extra_body=CFG_MAIN, extra_includes=["#include <formak/runtime/ManagedFilter.h>"])
        cf.__enter__()
    except Exception as ex:
        path = write_replay(PID, {"key": "cpp/config/generation", "info": {"kind": "cpp-config", "max_dt": max_dt}, "inputs": {}, "exception": f"{type(ex).__name__}: {ex}"})
        part.violation("cpp/config/generation", f"generation with max_dt_sec={max_dt!r} raises {type(ex).__name__}: {ex}", path)
        return part.d
    try:
        try:
            cf.compile_symbolic()
        except build.BuildError as ex:
            part.harness_error(f"{key}: build failed: {ex.log[-500:]}")
            return part.d
        leaves, _ = cf.run("")
        l = leaves[0]
        got = z3.simplify(l.out["cfg_max_dt"])
        gv = got.numerator_as_long() / got.denominator_as_long() if z3.is_rational_value(got) else None
        comp = z3.simplify(l.out["compatible"])
        ok = gv == float(max_dt) and z3.is_rational_value(comp) and comp.numerator_as_long() == 1
        part.record(Q("unsat" if ok else "sat", None, 0.0, ""), f"{key}: generated Tag::max_dt_sec == configured value, runtime compatible")
        if not ok:
            path = write_replay(PID, {"key": "cpp/config/max_dt", "info": {"kind": "cpp-config", "max_dt": max_dt}, "inputs": {}, "generated": gv})
            part.violation("cpp/config/max_dt", f"the C++ runtime would step with max_dt_sec={gv!r} although {max_dt!r} was configured", path)
    finally:
        cf.__exit__(None, None, None)
    part.sample({"impl": "c++ config", "configured": max_dt})
    return part.d


def tasks(tier, seed):
    if tier == "quick":
        combos = [(True, True, 0.1), (False, False, 0.5), (True, False, 0.1), (False, True, 0.1)]
        K = 2
    else:
        combos = [(c, k, m) for c in (True, False) for k in (True, False) for m in (0.05, 0.1, 0.5, 1.0 / 3.0)]
        K = 4
    t = [(cpp_task, (c, k, m, K, tier, seed)) for c, k, m in combos]
    t += [(cpp_task, (True, True, 0.1, 1, tier, seed, 1)), (cpp_task, (False, False, 0.25, 1, tier, seed, 1))]
    for md in ([1.0 / 3.0, 1.25e-5] if tier == "quick" else [1.0 / 3.0, 1.25e-5, 2.0 / 3.0, 4.5e-6, 2.5e-7, 1e-9, 0.0125]):
        t.append((cfg_task, (md, tier, seed)))
    if tier != "quick":
        t += [(cpp_task, (True, False, 0.05, 2, tier, seed, 1)), (cpp_task, (False, True, 0.5, 2, tier, seed, 1))]
    return t


def replay(r):
    from .c10 import violates_legs

    info = r["info"]
    if info["kind"] == "cpp-config":
        d = cfg_task(info["max_dt"], "quick", 0)
        print(d["violations"])
        return 1 if d["violations"] else 0
    if info["kind"] == "cpp-compile":
        d = build.workdir("c10r")
        try:
            build_standin(d, control=info["control"], cal=info["cal"], max_dt=info["max_dt"], concrete=True)
        except build.BuildError as ex:
            print("REPRODUCED: does not compile:\n", ex.log[-1500:])
            return 1
        finally:
            build.cleanup(d)
        print("not reproduced")
        return 0
    e = r["inputs"]
    tsf = r.get("ts", [])
    got = float_steps_cpp(info["control"], info["cal"], info["max_dt"], e["t0"], e["t1"], tsf)
    probs = violates_legs(e["t0"], e["t1"], info["max_dt"], tsf, got)
    print("steps", got)
    if probs:
        print("REPRODUCED:", probs)
        return 1
    print("not reproduced")
    return 0
