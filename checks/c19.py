"""C19 - the strapdown IMU reference model obeys rigid-body kinematics (E1 vs an independent quaternion reference)."""
from __future__ import annotations

import json
import math
import random

import z3

from engine.symreal import expr as X
from engine.symreal.core import SymReal, explore, lift
from engine.symreal.expr import C, V
from engine.symreal.shim import installed
from engine.symreal.zutil import zeval

from .common import Part, Report, approx_equal, finish, pmap, quiet, tier_timeout_ms, write_replay
from .oblig import prove_equal, reach

PID = "C19"

# names as declared by the reference model
ORI = ["oriw", "orix", "oriy", "oriz"]
CORI = ["coriw", "corix", "coriy", "coriz"]
GYRO = [r"\omega_{1}", r"\omega_{2}", r"\omega_{3}"]
ACC = ["f_{1}", "f_{2}", "f_{3}"]
BIAS = ["f_bias_{1}", "f_bias_{2}", "f_bias_{3}"]
POS = ["x_{A}_{1}", "x_{A}_{2}", "x_{A}_{3}"]
VEL = [r"\dot{x}_{A}_{1}", r"\dot{x}_{A}_{2}", r"\dot{x}_{A}_{3}"]
ACCEL = [r"\ddot{x}_{A}_{1}", r"\ddot{x}_{A}_{2}", r"\ddot{x}_{A}_{3}"]
YAW, PITCH, ROLL = r"\dot{\psi}", r"\dot{\theta}", r"\dot{\phi}"


def zname(n):
    """z3-friendly variable name for a LaTeX-style symbol name."""
    return "v_" + "".join(ch if ch.isalnum() else "_" for ch in n)


def qmul(p, q):
    """Hamilton product, written out (independent of sympy.Quaternion)."""
    pw, px, py, pz = p
    qw, qx, qy, qz = q
    return (
        pw * qw - px * qx - py * qy - pz * qz,
        pw * qx + px * qw + py * qz - pz * qy,
        pw * qy - px * qz + py * qw + pz * qx,
        pw * qz + px * qy - py * qx + pz * qw,
    )


def reference():
    """Specification from the property statement, in the harness algebra. Returns {state name: E}."""
    q = tuple(V(n) for n in ORI)
    c = tuple(V(n) for n in CORI)
    w = tuple(V(n) for n in GYRO)
    f = [V(n) for n in ACC]
    b = [V(n) for n in BIAS]
    g, dt = V("g"), V("dt")
    o = qmul(q, c)  # composed orientation
    ostar = (o[0], -o[1], -o[2], -o[3])
    zero = C(0)
    # gyro vector rotated by the composed orientation (explicit |o|^2 factor: no normalisation)
    rates = qmul(qmul(o, (zero, w[0], w[1], w[2])), ostar)
    # bias-corrected specific force rotated by o: R(o) u = (o (0,u) o*) / |o|^2
    n2 = o[0] * o[0] + o[1] * o[1] + o[2] * o[2] + o[3] * o[3]
    u = [f[i] - b[i] for i in range(3)]
    rot = qmul(qmul(o, (zero, u[0], u[1], u[2])), ostar)
    acc = [rot[1] / n2, rot[2] / n2, rot[3] / n2 - g]
    out = {}
    out[ROLL], out[PITCH], out[YAW] = rates[1], rates[2], rates[3]
    half = C(0.5)
    dq = qmul(q, (zero, w[0], w[1], w[2]))
    for i, n in enumerate(ORI):
        out[n] = q[i] + half * dq[i] * dt
    for i in range(3):
        out[ACCEL[i]] = acc[i]
        out[VEL[i]] = V(VEL[i]) + acc[i] * dt
        out[POS[i]] = V(POS[i]) + V(VEL[i]) * dt + acc[i] * dt * dt * half
    return out


def all_names():
    return ["dt", "g"] + ORI + CORI + GYRO + ACC + BIAS + POS + VEL + ACCEL + [YAW, PITCH, ROLL]


def zenv():
    return {n: z3.Real(zname(n)) for n in all_names()}


def concrete_model(cse, e):
    from formak import python
    from formak.reference_models import strapdown_imu as sm

    with quiet():
        cal = {s: float(e[s.name]) for s in sm.calibration}
        pm = python.compile(sm.symbolic_model, cal, config=python.Config(common_subexpression_elimination=cse))
        st = pm.State(**{s.name: float(e[s.name]) for s in sm.state})
        ct = pm.Control(**{s.name: float(e[s.name]) for s in sm.control})
        out = pm.model(float(e["dt"]), st, ct)
    names = sorted(s.name for s in sm.state)
    return {n: float(out.data[i, 0]) for i, n in enumerate(names)}


def concrete_alias(cse, e1, e2):
    from formak import python
    from formak.reference_models import strapdown_imu as sm

    with quiet():
        cal = {s: float(e1[s.name]) for s in sm.calibration}
        pm = python.compile(sm.symbolic_model, cal, config=python.Config(common_subexpression_elimination=cse))
        outs = []
        for e in (e1, e2):
            st = pm.State(**{s.name: float(e[s.name]) for s in sm.state})
            ct = pm.Control(**{s.name: float(e[s.name]) for s in sm.control})
            outs.append(pm.model(float(e["dt"]), st, ct))
        keep_now = outs[0].data.reshape(-1).copy()
    fresh = concrete_model(cse, e1)
    names = sorted(s.name for s in sm.state)
    return {n: (float(keep_now[i]), fresh[n]) for i, n in enumerate(names) if not approx_equal(float(keep_now[i]), fresh[n])}


def seeded_env(rng):
    e = {n: rng.randint(-16, 16) / 8.0 for n in all_names()}
    e["oriw"] = 1.0
    e["coriw"] = 0.75
    return e


def task(mode, cse, names, tier, seed):
    """mode 'symbolic-model': strapdown_imu.state_model (walker) == reference; mode 'compiled': python.compile(...) executed in E1."""
    part = Part()
    part.program("P9-strapdown")
    from formak.reference_models import strapdown_imu as sm

    ref = reference()
    env = zenv()
    den, dom = [], []
    spec = {n: X.to_z3(ref[n], env, den, dom) for n in names}
    assumes = [d != 0 for d in den]
    tmo = 75000 if tier == "quick" else 480000
    state_names = sorted(s.name for s in sm.state)
    if set(state_names) != set(ref):
        part.harness_error(f"state names differ from the reference: {set(state_names) ^ set(ref)}")
        return part.d
    rng = random.Random(seed + 3)
    pts = [seeded_env(rng) for _ in range(2)]
    zpts = [{zname(k): v for k, v in pt.items()} for pt in pts]
    if mode == "symbolic-model":
        part.fn("reference_models.strapdown_imu.state_model")
        impl = {}
        need = set(names) | {ACCEL[(VEL + POS).index(n) % 3] for n in names if n in VEL + POS}
        for s in sm.state:
            if s.name in need:
                impl[s.name] = X.to_z3(X.from_sympy(sm.state_model[s]), env)
        # walker validation against sympy's own numeric evaluation
        for pt, zpt in zip(pts, zpts):
            import sympy

            subs = {sym: pt[sym.name] for sym in (sm.state | sm.control | sm.calibration | {sm.dt})}
            for s in sm.state:
                if s.name in names:
                    a = float(sympy.N(sm.state_model[s].subs(subs)))
                    b = zeval(impl[s.name], zpt)
                    if not approx_equal(a, b, rel=1e-9):
                        part.harness_error(f"sympy->E walker validation failed for {s.name}: {a} vs {b}")
        label = "state_model"

        def mk_replay(n):
            def replay(e):
                import sympy

                e2 = {k[2:]: v for k, v in e.items()}
                return None

            return None

    else:
        part.fn("python.compile", "python.Model.model", "python.BasicBlock._compile", "python.BasicBlock.execute", "reference_models.strapdown_imu.symbolic_model")
        from formak import python

        # concrete differential first: the compiled model against the reference at seeded points and at points in
        # particular (valid) regimes - a step longer / shorter than the configured maximum, a mounting calibration that
        # is almost but not exactly the identity, biases of 1e-9, large positions.  Judged relative to the magnitude
        # bound of the reference expression.  (Also decides changes after which the symbolic run cannot finish.)
        import math

        crng = random.Random(seed + 41)
        cpts = []
        for i in range(2):
            cpts.append(("seeded", seeded_env(crng)))
        for dtv_ in (0.375, 1.0, 0.1, 1e-4):
            e_ = seeded_env(crng)
            e_["dt"] = dtv_
            cpts.append((f"dt={dtv_}", e_))
        e_ = seeded_env(crng)
        e_.update({"coriw": 1.000004, "corix": 3e-6, "coriy": -2e-6, "coriz": 1e-6})
        for b_ in BIAS:
            e_[b_] = 5e-9
        cpts.append(("near-identity calibration, 5e-9 biases", e_))
        e_ = seeded_env(crng)
        e_.update({"coriw": 0.9999999, "corix": 0.0, "coriy": 4e-7, "coriz": 0.0, "g": 9.80665})
        for n_ in POS:
            e_[n_] = e_[n_] * 2.0 ** 20
        cpts.append(("almost-unit calibration, large positions", e_))
        for lab_, e_ in cpts:
            try:
                want = {n_: X.evalf(ref[n_], e_) for n_ in state_names}
                mags = {n_: X.evalmag(ref[n_], e_) for n_ in state_names}
            except (ZeroDivisionError, ValueError, OverflowError):
                continue
            try:
                got = concrete_model(cse, e_)
            except Exception as ex:
                path = write_replay(PID, {"key": f"compiled/cse={int(cse)}/raises", "info": {"mode": mode, "cse": cse}, "inputs": e_, "exception": f"{type(ex).__name__}: {ex}"})
                part.violation(f"compiled/cse={int(cse)}/raises", f"compiled strapdown model raises {type(ex).__name__}: {ex} ({lab_})", path)
                return part.d
            badc = [n_ for n_ in state_names if not (math.isfinite(got[n_]) and abs(got[n_] - want[n_]) <= 1e-9 * mags[n_] + 1e-300)]
            from .common import Q as _Qc

            part.record(_Qc("sat" if badc else "unsat", None, 0.0, ""), f"compiled/cse={int(cse)}: compiled model == reference at a concrete point ({lab_}), relative to operand magnitude")
            if badc:
                n_ = badc[0]
                path = write_replay(PID, {"key": f"compiled/cse={int(cse)}/concrete[{n_}]", "info": {"mode": "concrete", "cse": cse, "state": n_}, "inputs": e_})
                part.violation(f"compiled/cse={int(cse)}/concrete[{n_}]", f"compiled strapdown model differs from the rigid-body reference ({lab_}): {n_} = {got[n_]!r}, reference {want[n_]!r} (also {badc[1:4]}) at dt={e_['dt']}", path)
                return part.d

        def harness():
            with installed(), quiet():
                cal = {s: SymReal(env[s.name]) for s in sm.calibration}
                pm = python.compile(sm.symbolic_model, cal, config=python.Config(common_subexpression_elimination=cse))
                st = pm.State(**{s.name: SymReal(env[s.name]) for s in sm.state})
                ct = pm.Control(**{s.name: SymReal(env[s.name]) for s in sm.control})
                first = pm.model(SymReal(env["dt"]), st, ct)
                snap = first.data.copy()
                # history dimension: the compiled model is used again; what it returned before must not change
                st2 = pm.State(**{s.name: SymReal(z3.Real(zname(s.name) + "__2")) for s in sm.state})
                ct2 = pm.Control(**{s.name: SymReal(z3.Real(zname(s.name) + "__2")) for s in sm.control})
                pm.model(SymReal(z3.Real("v_dt__2")), st2, ct2)
                stable = all(lift(a).eq(lift(b)) for a, b in zip(snap.reshape(-1), first.data.reshape(-1)))
                return pm.State.from_data(snap), stable

        ls = explore(harness, assumes=assumes)
        part.leaves(ls)
        if len(ls) != 1 or ls[0].status != "ok":
            part.harness_error(f"compiled strapdown model: {ls}")
            return part.d
        out, stable = ls[0].value
        from .common import Q as _Q

        part.record(_Q("unsat" if stable else "sat", None, 0.0, ""), f"compiled/cse={int(cse)}: the state returned by an earlier call is unchanged by a later call")
        if not stable:
            e1, e2 = seeded_env(random.Random(seed + 1)), seeded_env(random.Random(seed + 2))
            bad = concrete_alias(cse, e1, e2)
            if bad:
                path = write_replay(PID, {"key": f"compiled/cse={int(cse)}/aliasing", "info": {"mode": "aliasing", "cse": cse}, "inputs": {"first": e1, "second": e2}, "changed": bad})
                part.violation(f"compiled/cse={int(cse)}/aliasing", f"the state returned by the compiled strapdown model changed after a later call: {list(bad)[:3]}", path)
            else:
                part.harness_error("compiled strapdown: symbolic aliasing not reproduced concretely")
        impl = {n: lift(out.data[state_names.index(n), 0]) for n in state_names}
        for pt, zpt in zip(pts, zpts):
            try:
                got = concrete_model(cse, pt)
            except Exception as ex:
                path = write_replay(PID, {"key": f"compiled/cse={int(cse)}/raises", "info": {"mode": mode, "cse": cse}, "inputs": pt, "exception": f"{type(ex).__name__}: {ex}"})
                part.violation(f"compiled/cse={int(cse)}/raises", f"compiled strapdown model raises {type(ex).__name__}: {ex}", path)
                return part.d
            for n in names:
                v = zeval(impl[n], zpt)
                if not approx_equal(v, got[n], rel=1e-8, abs_=1e-9):
                    part.harness_error(f"encoding validation failed for {n}: {v} vs {got[n]}")
        label = f"compiled/cse={int(cse)}"

    def mk_replay(n):
        def replay(e):
            e2 = {}
            for nm in all_names():
                e2[nm] = e.get(zname(nm), 0.5)
            want = X.evalf(ref[n], e2)
            if mode == "compiled":
                return {"impl": concrete_model(cse, e2)[n], "spec": want}
            import sympy

            subs = {sym: e2[sym.name] for sym in (sm.state | sm.control | sm.calibration | {sm.dt})}
            sx = [s for s in sm.state if s.name == n][0]
            return {"impl": float(sympy.N(sm.state_model[sx].subs(subs))), "spec": want}

        return replay

    allv = {zname(n): v for n, v in env.items()}
    half = z3.Q(1, 2)
    for n in names:
        if n in VEL + POS:
            # guided chain: (L1) impl == integral form over the implementation's own acceleration output (instant),
            # (L2) that acceleration output == reference acceleration (its own obligation), then congruence.
            i = (VEL + POS).index(n) % 3
            acc_i = impl[ACCEL[i]]
            dtv = env["dt"]
            form = (env[n] + dtv * acc_i) if n in VEL else (env[n] + dtv * env[VEL[i]] + dtv * dtv * acc_i * half)
            r1 = prove_equal(part, PID, f"{label}[{n}] == constant-acceleration integral of the implementation's acceleration (lemma L1)", impl[n], form, assumes, tmo, replay=mk_replay(n), key=f"{label}[{n}]", info={"mode": mode, "cse": cse, "state": n}, all_vars=allv, box=(-2, 2))
            den2 = []
            spec_acc = X.to_z3(ref[ACCEL[i]], env, den2)
            r2 = prove_equal(part, PID, f"{label}[{ACCEL[i]}] == reference acceleration (lemma L2 for {n})", acc_i, spec_acc, assumes, tmo, replay=mk_replay(ACCEL[i]), key=f"{label}[{ACCEL[i]}]", info={"mode": mode, "cse": cse, "state": ACCEL[i]}, all_vars=allv, box=(-2, 2))
            A = z3.Real("A!acc")
            form_a = (env[n] + dtv * A) if n in VEL else (env[n] + dtv * env[VEL[i]] + dtv * dtv * A * half)
            spec_a = X.to_z3(X.subst_var(ref[n], ref[ACCEL[i]], "A!acc"), dict(env, **{"A!acc": A})) if hasattr(X, "subst_var") else None
            if spec_a is not None:
                prove_equal(part, PID, f"{label}[{n}]: integral form == reference with the acceleration abstracted (congruence step)", form_a, spec_a, assumes, tmo, key=f"{label}[{n}]")
            continue
        prove_equal(part, PID, f"{label}[{n}] == rigid-body reference", impl[n], spec[n], assumes, tmo, replay=mk_replay(n), key=f"{label}[{n}]", info={"mode": mode, "cse": cse, "state": n}, all_vars=allv, box=(-2, 2))
    reach(part, label + "/assumptions-sat", assumes)
    part.sample({"mode": mode, "cse": cse, "states": names[:3], "impl": str(impl[names[0]])[:160]})
    return part.d


CHEAP = ORI + [YAW, PITCH, ROLL]
HEAVY = ACCEL + VEL + POS


def run(tier, seed):
    rep = Report(PID, tier, seed, "translation_validation")
    tasks = []
    if tier == "quick":
        tasks.append(("symbolic-model", False, CHEAP, tier, seed))
        for n in HEAVY:
            tasks.append(("symbolic-model", False, [n], tier, seed))
        tasks.append(("compiled", False, CHEAP, tier, seed))
        for n in HEAVY[:4]:
            tasks.append(("compiled", False, [n], tier, seed))
        tasks.append(("compiled", True, CHEAP, tier, seed))
        tasks.append(("compiled", True, [HEAVY[0]], tier, seed))
    else:
        for mode, cse in (("symbolic-model", False), ("compiled", False), ("compiled", True)):
            tasks.append((mode, cse, CHEAP, tier, seed))
            for n in HEAVY:
                tasks.append((mode, cse, [n], tier, seed))
    for d in pmap(task, tasks):
        rep.merge(d)
    rep.bounds = {"program": "reference_models/strapdown_imu.symbolic_model (16 states, 6 controls, 8 calibration values)", "inputs": "all 25 real inputs + dt; assumption |q (x) c|^2 != 0", "quick": "all 16 states of the symbolic model; compiled model: 7 light + 4 heavy states without CSE, 7 light + 1 heavy with CSE", "thorough": "all 16 states x {symbolic model, compiled no-CSE, compiled CSE}"}
    rep.assumptions = ["reals for doubles", "reference written from the property statement with a hand-written Hamilton product (not sympy.Quaternion)", "sympy->E walker validated against sympy.N on every run"]
    return finish(
        rep,
        explanation="The reference strapdown model's update expressions (as sympy objects, through a validated walker) and the compiled Python model of it (executed on symbolic reals, CSE on and off) are proved equal, state by state, to a quaternion-kinematics specification written in the harness from the property statement: rates = vec(o w o*), acceleration = R(o)(f-b) - g e3 with the explicit |o|^2, constant-acceleration integrals, q + 1/2 q(0,w)dt.",
        rule="one obligation per (artefact, CSE, state variable)",
        trusted_base=["z3 5.1", "engine/symreal", "harness quaternion reference"],
    )


def replay(path):
    with open(path) as f:
        r = json.load(f)
    info = r["info"]
    e = r["inputs"]
    if info.get("mode") == "aliasing":
        bad = concrete_alias(info["cse"], e["first"], e["second"])
        print(bad)
        print("REPRODUCED" if bad else "not reproduced")
        return 1 if bad else 0
    e2 = {nm: e.get(zname(nm), e.get(nm, 0.5)) for nm in all_names()}
    ref = reference()
    try:
        got = concrete_model(info.get("cse", False), e2)
    except Exception as ex:
        print(f"REPRODUCED: raises {type(ex).__name__}: {ex}")
        return 1
    if info.get("mode") == "concrete":
        import math

        bad = {n: (got[n], X.evalf(ref[n], e2)) for n in ref if not (math.isfinite(got[n]) and abs(got[n] - X.evalf(ref[n], e2)) <= 1e-9 * X.evalmag(ref[n], e2) + 1e-300)}
        print(bad)
        print("REPRODUCED" if bad else "not reproduced")
        return 1 if bad else 0
    bad = {n: (got[n], X.evalf(ref[n], e2)) for n in ref if not approx_equal(got[n], X.evalf(ref[n], e2), rel=1e-6)}
    print(bad)
    if bad:
        print("REPRODUCED")
        return 1
    print("not reproduced")
    return 0
