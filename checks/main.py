"""Dispatcher: python -m checks.main <ID> [--tier quick|thorough] [--replay FILE]"""
import argparse
import importlib
import os
import sys
import traceback


def main():
    ap = argparse.ArgumentParser()
    ap.add_argument("pid")
    ap.add_argument("--tier", default=os.environ.get("VERIF_TIER", "quick"), choices=["quick", "thorough"])
    ap.add_argument("--replay")
    a = ap.parse_args()
    if os.environ.get("VERIF_TIER") in ("quick", "thorough"):
        a.tier = os.environ["VERIF_TIER"]
    seed = int(os.environ.get("VERIF_SEED", "0") or 0)
    os.environ["VERIF_TIER_ACTIVE"] = a.tier
    mod = importlib.import_module("checks." + a.pid.lower())
    try:
        if a.replay:
            try:
                import json

                if json.load(open(a.replay)).get("extra_validation"):
                    os.environ["VERIF_EXTRA_VALIDATION"] = "1"
            except Exception:
                pass
            code = mod.replay(a.replay)
        else:
            code = mod.run(a.tier, seed)
    except SystemExit:
        raise
    except BaseException:
        traceback.print_exc()
        print("HARNESS-ERROR: check crashed")
        code = 2
    sys.stdout.flush()
    sys.exit(code)


if __name__ == "__main__":
    main()
