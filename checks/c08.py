"""C08 - common-subexpression elimination never changes a result (E1 + E2; direct on/off comparison)."""
from __future__ import annotations

import json
import random
import re
from fractions import Fraction

import z3

from corpus import programs as CP
from engine.symreal import expr as X
from engine.symreal.core import SymReal, explore, lift
from engine.symreal.shim import installed
from engine.vsym import build

from . import pyh
from .common import Part, Q, Report, approx_equal, finish, pmap, quiet, solve, tier_timeout_ms, write_replay
from .cpph import CppFilter
from .oblig import prove_equal, reach

PID = "C08"


def py_blocks_float(p, cse, e):
    """All BasicBlock-backed outputs of the real Python code in floats."""
    with quiet():
        ekf = pyh.build_ekf_float(p, e, cse=cse)
        st = ekf.State(**{s: float(e[s]) for s in p.state})
        ct = ekf.Control(**{c: float(e[c]) for c in p.control})
        dt = float(e[p.dt])
        out = {}
        nxt = ekf._state_model.model(dt, st, ct)
        for i, s in enumerate(p.s_state()):
            out[f"f_{s}"] = float(nxt.data[i, 0])
        for nm, M in (("G", ekf.process_jacobian(dt, st, ct)), ("V", ekf.control_jacobian(dt, st, ct))):
            for i in range(M.shape[0]):
                for j in range(M.shape[1]):
                    out[f"{nm}_{i}_{j}"] = float(M[i, j])
        for key in p.sensors:
            h = ekf.sensor_models[key].model(st)
            for i, r in enumerate(p.s_readings(key)):
                out[f"h_{key}_{r}"] = float(h.data[i, 0])
            H = ekf.sensor_jacobian(key, st)
            for i in range(H.shape[0]):
                for j in range(H.shape[1]):
                    out[f"H_{key}_{i}_{j}"] = float(H[i, j])
    return out


def py_blocks_float_seq(p, cse, envs):
    """Real code in floats: ONE filter, model / process / control Jacobians / sensor models evaluated at each env in turn;
    returns the outputs of the LAST evaluation."""
    with quiet():
        ekf = pyh.build_ekf_float(p, envs[0], cse=cse)
        out = {}
        for e in envs:
            st = ekf.State(**{s: float(e[s]) for s in p.state})
            ct = ekf.Control(**{c: float(e[c]) for c in p.control})
            dt = float(e[p.dt])
            out = {}
            nxt = ekf._state_model.model(dt, st, ct)
            for i, s in enumerate(p.s_state()):
                out[f"f_{s}"] = float(nxt.data[i, 0])
            for nm, M in (("G", ekf.process_jacobian(dt, st, ct)), ("V", ekf.control_jacobian(dt, st, ct))):
                for i in range(M.shape[0]):
                    for j in range(M.shape[1]):
                        out[f"{nm}_{i}_{j}"] = float(M[i, j])
            for key in p.sensors:
                h = ekf.sensor_models[key].model(st)
                for i, r in enumerate(p.s_readings(key)):
                    out[f"h_{key}_{r}"] = float(h.data[i, 0])
    return out


def _blocks_of(ekf):
    """Every python.BasicBlock reachable from the filter object (attribute names as in python.py)."""
    bs = [getattr(getattr(ekf, "_state_model", None), "_impl", None), getattr(ekf, "_impl_process_jacobian", None), getattr(ekf, "_impl_control_jacobian", None)]
    for sm in getattr(ekf, "sensor_models", {}).values():
        bs.append(getattr(sm, "_impl", None))
    bs += list(getattr(ekf, "_impl_sensor_jacobians", {}).values())
    return [b for b in bs if b is not None and hasattr(b, "_prefix")]


def _tap_temporaries(ekf, sink):
    """Wrap the compiled callables of the CSE prefix (on the object, not in the source) so that the symbolic value of
    every temporary is recorded as it is computed."""
    for b in _blocks_of(ekf):
        wrapped = []
        for name, fn in b._prefix:

            def w(*a, _fn=fn, _name=str(name), **k):
                v = _fn(*a, **k)
                sink.append((_name, v))
                return v

            wrapped.append((name, w))
        b._prefix = wrapped


def outcome_float(p, cse, e):
    import warnings

    try:
        with warnings.catch_warnings():
            warnings.simplefilter("ignore")
            return ("ok", py_blocks_float(p, cse, e))
    except Exception as ex:
        return ("raised", f"{type(ex).__name__}: {ex}")


def event_differs(p, e):
    """At a floating-point event point: CSE off returns values but CSE on raises (or the finite values differ)."""
    off = outcome_float(p, False, e)
    if off[0] != "ok":
        return None  # the plain program itself refuses this point: nothing to compare
    on = outcome_float(p, True, e)
    if on[0] != "ok":
        return f"CSE off returns values, CSE on raises {on[1]}"
    import math

    for k, b in off[1].items():
        a = on[1][k]
        if math.isfinite(a) and math.isfinite(b) and not approx_equal(a, b):
            return f"{k}: cse-on {a!r} != cse-off {b!r}"
    return None


def py_task(p, tier, seed):
    part = Part()
    part.program(p.id)
    part.fn("python.BasicBlock._compile", "python.BasicBlock.execute", "python.Model.model", "python.SensorModel.model", "python.ExtendedKalmanFilter.process_jacobian", "python.ExtendedKalmanFilter.control_jacobian", "python.ExtendedKalmanFilter.sensor_jacobian")
    env = pyh.input_env(p)
    _, _, _, _, assumes = __import__("checks.c02", fromlist=["spec_pieces"]).spec_pieces(p, env)
    tmo = tier_timeout_ms(tier)
    outs = {}
    temps = []
    env2 = pyh.second_env(env, keep=p.calibration)
    for cse in (True, False):

        def harness():
            with installed(), quiet():
                ekf = pyh.build_ekf_sym(p, env, p.process_noise, p.sensor_noise, cse=cse)
                if cse:
                    del temps[:]
                    _tap_temporaries(ekf, temps)
                st = ekf.State(**pyh.sym_state_kwargs(p.state, env))
                ct = ekf.Control(**pyh.sym_state_kwargs(p.control, env))
                dt = SymReal(env[p.dt])
                out = {}
                nxt = ekf._state_model.model(dt, st, ct)
                for i, s in enumerate(p.s_state()):
                    out[f"f_{s}"] = nxt.data[i, 0]
                for nm, M in (("G", ekf.process_jacobian(dt, st, ct)), ("V", ekf.control_jacobian(dt, st, ct))):
                    for i in range(M.shape[0]):
                        for j in range(M.shape[1]):
                            out[f"{nm}_{i}_{j}"] = M[i, j]
                for key in p.sensors:
                    h = ekf.sensor_models[key].model(st)
                    for i, r in enumerate(p.s_readings(key)):
                        out[f"h_{key}_{r}"] = h.data[i, 0]
                    H = ekf.sensor_jacobian(key, st)
                    for i in range(H.shape[0]):
                        for j in range(H.shape[1]):
                            out[f"H_{key}_{i}_{j}"] = H[i, j]
                n_tmp = len(ekf._state_model._impl._prefix) + len(ekf._impl_process_jacobian._prefix)
                # history dimension: every block evaluated again on the same objects at independent inputs
                st2 = ekf.State(**pyh.sym_state_kwargs(p.state, env2))
                ct2 = ekf.Control(**pyh.sym_state_kwargs(p.control, env2))
                dt2 = SymReal(env2[p.dt])
                nxt2 = ekf._state_model.model(dt2, st2, ct2)
                for i, s in enumerate(p.s_state()):
                    out[f"second/f_{s}"] = nxt2.data[i, 0]
                for nm, M in (("G", ekf.process_jacobian(dt2, st2, ct2)), ("V", ekf.control_jacobian(dt2, st2, ct2))):
                    for i in range(M.shape[0]):
                        for j in range(M.shape[1]):
                            out[f"second/{nm}_{i}_{j}"] = M[i, j]
                for key in p.sensors:
                    h = ekf.sensor_models[key].model(st2)
                    for i, r in enumerate(p.s_readings(key)):
                        out[f"second/h_{key}_{r}"] = h.data[i, 0]
                return out, n_tmp

        ls = explore(harness, assumes=assumes, config={"gate": "assume"})
        part.leaves(ls)
        if any(l_.status != "ok" for l_ in ls):
            # e.g. a temporary referenced before assignment -> missing keyword argument
            l = [l_ for l_ in ls if l_.status != "ok"][0]
            e0 = pyh.seeded_points(list(env), seed, 1)[0]
            try:
                py_blocks_float(p, cse, e0)
                part.harness_error(f"{p.id}/py/cse={cse}: symbolic run failed ({l}) but the concrete run succeeds")
            except Exception as ex:
                path = write_replay(PID, {"key": f"{p.id}/py/raises", "info": {"kind": "py", "program": p.id}, "inputs": e0, "exception": f"{type(ex).__name__}: {ex}"})
                part.violation(f"{p.id}/py/raises", f"compiled Python code raises with cse={cse}: {type(ex).__name__}: {ex}", path)
            return part.d
        outs[cse] = ls
    off_leaf = outs[False][0]
    (off, _) = off_leaf.value
    ntmp = outs[True][0].value[1]
    part.extra("py_temporaries", ntmp)
    if p.id.startswith("P7") and ntmp == 0:
        part.harness_error(f"{p.id}: vacuity: CSE produced no temporaries on the CSE-target program")
    allv2 = dict(env)
    allv2.update({v.decl().name(): v for v in env2.values()})
    assumes2 = assumes + [pyh.subst_env(a, env, env2) for a in assumes]
    from .common import solve as _solve

    for li, on_leaf in enumerate(outs[True]):
        on, _ = on_leaf.value
        pa = assumes2 + on_leaf.pc + off_leaf.pc
        if len(outs[True]) > 1 and _solve(pa, 5000).status == "unsat":
            continue
        tag = f"{p.id}/py" + (f"/path{li}" if len(outs[True]) > 1 else "")
        for nm in on:

            def replay(e, nm=nm):
                if nm.startswith("second/"):
                    e1 = {n_: e.get(n_, 0.25) for n_ in env}
                    e2 = {n_: (e1[n_] if n_ in p.calibration else e.get(env2[n_].decl().name(), 0.5)) for n_ in env}
                    a_ = py_blocks_float_seq(p, True, [e1, e2])[nm[7:]]
                    b_ = py_blocks_float_seq(p, False, [e1, e2])[nm[7:]]
                    return {"impl": a_, "spec": b_}
                return {"impl": py_blocks_float(p, True, e)[nm], "spec": py_blocks_float(p, False, e)[nm]}

            prove_equal(part, PID, f"{tag}/{nm}: cse-on == cse-off", lift(on[nm]), lift(off[nm]), pa, tmo, replay=replay, key=f"{p.id}/py/{nm}", info={"kind": "py", "program": p.id, "output": nm}, all_vars=allv2)
    # floating-point events: the solver picks, per recorded temporary, a float-exact input at which the temporary is
    # exactly zero (definedness assumptions dropped on purpose); the real code decides on/off there (companion replay)
    from .common import dyadic_box

    seen_t, n_ev, n_hit = set(), 0, 0
    for tname, tv in temps:
        if not isinstance(tv, SymReal):
            continue
        t = lift(tv)
        if t.get_id() in seen_t or len(seen_t) >= 24:
            continue
        seen_t.add(t.get_id())
        q = solve([t == 0] + dyadic_box(allv2, lo=-2, hi=2, denom=4, exclude=()) + [env[p.dt] > 0], 3000, tag=f"{p.id}/py/event/{tname}")
        if q.status != "sat":
            continue
        n_ev += 1
        e = {n_: float(q.model.get(n_, Fraction(1, 4))) for n_ in env}
        why = event_differs(p, e)
        if why:
            n_hit += 1
            path = write_replay(PID, {"key": f"{p.id}/py/event", "info": {"kind": "py-event", "program": p.id, "temporary": tname}, "inputs": e, "what": why})
            part.violation(f"{p.id}/py/event", f"at a point where temporary {tname} is exactly zero: {why}", path)
            break
    part.extra("py_zero_event_points", n_ev)
    part.sample({"program": p.id, "backend": "python", "temporaries": ntmp, "outputs": len(on)})
    return part.d


def structural_cpp(source_text):
    """Every temporary '_tN' is declared exactly once and before its first use (text order inside each function body)."""
    problems = []
    n_tmp = 0
    # split at function bodies: a body starts at a line ending with '{' and ends at a line '}' at indentation <= 2
    bodies = re.split(r"\n\s*\}\s*\n", source_text)
    for body in bodies:
        decl_pos = {}
        for m in re.finditer(r"\bdouble\s+(_t\d+)\s*=", body):
            nm = m.group(1)
            if nm in decl_pos:
                problems.append(f"{nm} assigned twice")
            decl_pos[nm] = m.start()
        n_tmp += len(decl_pos)
        for m in re.finditer(r"\b(_t\d+)\b", body):
            nm = m.group(1)
            if nm not in decl_pos:
                problems.append(f"{nm} used but never declared in its function")
            elif m.start() < decl_pos[nm]:
                problems.append(f"{nm} used before its declaration")
    return problems, n_tmp


def cpp_task(p, tier, seed):
    part = Part()
    part.program(p.id)
    part.fn("cpp.BasicBlock.compile", "cpp.ExtendedKalmanFilter.*_body", "cpp.source_from_ast")
    env = pyh.input_env(p)
    for key in p.sensors:
        for r in p.sensors[key]:
            env[f"z_{key}_{r}"] = z3.Real(f"z_{key}_{r}")
    _, _, _, _, assumes = __import__("checks.c02", fromlist=["spec_pieces"]).spec_pieces(p, env)
    tmo = tier_timeout_ms(tier)
    res = {}
    cfs = {}
    try:
        for cse in (True, False):
            cf = CppFilter(p, ekf=True, cse=cse, k=None)
            cf.__enter__()
            cfs[cse] = cf
            try:
                cf.compile_symbolic()
            except build.BuildError as ex:
                path = write_replay(PID, {"key": f"{p.id}/cpp/compile", "info": {"kind": "cpp-compile", "program": p.id, "cse": cse}, "inputs": {}, "compiler_log": ex.log[-3000:]})
                part.violation(f"{p.id}/cpp/compile", f"generated C++ (cse={cse}) does not compile (temporary declared twice / used before declaration?): {ex.log.strip().splitlines()[0] if ex.log.strip() else ''}", path)
                return part.d
            outs = {}
            for scn in ["pm"] + [f"sm:{k}" for k in p.s_sensors()]:
                leaves, _ = cf.run(scn)
                part.d["paths"]["leaves"] += len(leaves)
                for nm, t in leaves[0].out.items():
                    outs[f"{scn}/{nm}"] = t
            res[cse] = outs
        probs, ntmp = structural_cpp(cfs[True].source_text)
        part.extra("cpp_temporaries", ntmp)
        part.record(Q("unsat" if not probs else "sat", None, 0.0, ""), f"{p.id}/cpp: every temporary declared once, before first use ({ntmp} temporaries; also enforced by the compiler and by poison variables)")
        if probs:
            path = write_replay(PID, {"key": f"{p.id}/cpp/structure", "info": {"kind": "cpp-structure", "program": p.id}, "inputs": {}, "problems": probs[:10]})
            part.violation(f"{p.id}/cpp/structure", f"generated temporaries violate single-assignment/def-before-use: {probs[:3]}", path)
        if p.id.startswith("P7") and ntmp == 0:
            part.d["inconclusive"].append(f"{p.id}: C++ CSE produced no temporaries named _t<N> on the CSE-target program (vacuity of the structural clause)")
        for nm in res[True]:
            if nm not in res[False]:
                part.harness_error(f"{p.id}/cpp: output {nm} only with cse on")
                continue
            scn, oname = nm.split("/", 1)

            def replay(e, scn=scn, oname=oname):
                e = dict(e)
                for v in env:
                    e.setdefault(v, 0.5)
                for i, a in enumerate(p.s_state()):
                    for b in p.s_state()[i:]:
                        e.setdefault(f"P_{a}_{b}", 1.0 if a == b else 0.0)
                a_, _, _ = cfs[True].run_concrete(scn, e)
                b_, _, _ = cfs[False].run_concrete(scn, e)
                return {"impl": a_[oname], "spec": b_[oname]}

            prove_equal(part, PID, f"{p.id}/cpp/{nm}: cse-on == cse-off", res[True][nm], res[False][nm], assumes, tmo, replay=replay, key=f"{p.id}/cpp/{nm}", info={"kind": "cpp", "program": p.id, "scenario": scn, "output": oname}, all_vars=env)
        part.sample({"program": p.id, "backend": "c++", "temporaries": ntmp, "outputs": len(res[True])})
    finally:
        for cf in cfs.values():
            cf.__exit__(None, None, None)
    return part.d


def model_task(p, tier, seed):
    """Model-level programs (abs / inverse-function compositions; no Jacobians): python.compile and the C++ Model, CSE on vs off."""
    from . import c01

    part = Part()
    part.program(p.id)
    part.fn("python.compile", "python.Model.model", "python.BasicBlock._compile", "cpp.compile", "cpp.Model.model_body", "cpp.BasicBlock.compile")
    env = pyh.input_env(p)
    _, assumes = pyh.spec_update(p, env)
    tmo = tier_timeout_ms(tier)
    from formak import python

    outs = {}
    for cse in (True, False):

        def harness():
            with installed(), quiet():
                pm = python.compile(p.ui_model(), pyh.sym_calibration_map(p, env), config=pyh.py_config(cse))
                return pm.model(SymReal(env[p.dt]), pm.State(**pyh.sym_state_kwargs(p.state, env)), pm.Control(**pyh.sym_state_kwargs(p.control, env))), len(pm._impl._prefix)

        ls = explore(harness, assumes=assumes)
        part.leaves(ls)
        if not ls or any(l_.status != "ok" for l_ in ls):
            part.harness_error(f"{p.id}/py-model/cse={cse}: {ls}")
            return part.d
        outs[cse] = ls
    ss = p.s_state()
    part.extra("py_model_temporaries", outs[True][0].value[1])
    multi = len(outs[True]) > 1 or len(outs[False]) > 1
    matched = 0
    for a_i, on in enumerate(outs[True]):
        for b_i, off in enumerate(outs[False]):
            pa = assumes + on.pc + off.pc
            if multi and solve(pa, 5000).status == "unsat":
                continue
            matched += 1
            for i, s_ in enumerate(ss):

                def replay(e, s_=s_):
                    return {"impl": c01.concrete_model(p, True, e)[s_], "spec": c01.concrete_model(p, False, e)[s_]}

                tag = f"/path{a_i}x{b_i}" if multi else ""
                prove_equal(part, PID, f"{p.id}/py-model{tag}/{s_}: cse-on == cse-off", lift(on.value[0].data[i, 0]), lift(off.value[0].data[i, 0]), pa, tmo, replay=replay, key=f"{p.id}/py-model/{s_}", info={"kind": "py-model", "program": p.id, "output": s_}, all_vars=env)
    if matched == 0:
        part.harness_error(f"{p.id}/py-model: no jointly feasible pair of paths")
    # C++ Model mode
    cfs = {}
    try:
        res = {}
        for cse in (True, False):
            cf = CppFilter(p, ekf=False, cse=cse)
            cf.__enter__()
            cfs[cse] = cf
            try:
                cf.compile_symbolic()
            except build.BuildError as ex:
                path = write_replay(PID, {"key": f"{p.id}/cpp-model/compile", "info": {"kind": "cpp-model-compile", "program": p.id, "cse": cse}, "inputs": {}, "compiler_log": ex.log[-3000:]})
                part.violation(f"{p.id}/cpp-model/compile", f"generated C++ Model (cse={cse}) does not compile", path)
                return part.d
            leaves, _ = cf.run("")
            part.d["paths"]["leaves"] += len(leaves)
            res[cse] = leaves
        multi = len(res[True]) > 1 or len(res[False]) > 1
        matched = 0
        for on in res[True]:
            for off in res[False]:
                pa = assumes + on.pc + off.pc
                if multi and solve(pa, 5000).status == "unsat":
                    continue
                matched += 1
                for nm in on.out:

                    def replay(e, nm=nm):
                        e = dict(e)
                        for v in env:
                            e.setdefault(v, 0.5)
                        a_, _, _ = cfs[True].run_concrete("", e)
                        b_, _, _ = cfs[False].run_concrete("", e)
                        return {"impl": a_[nm], "spec": b_[nm]}

                    tag = f"/path{on.decisions}x{off.decisions}" if multi else ""
                    prove_equal(part, PID, f"{p.id}/cpp-model{tag}/{nm}: cse-on == cse-off", on.out[nm], off.out[nm], pa, tmo, replay=replay, key=f"{p.id}/cpp-model/{nm}", info={"kind": "cpp-model", "program": p.id, "output": nm}, all_vars=env)
        if matched == 0:
            part.harness_error(f"{p.id}/cpp-model: no jointly feasible pair of paths")
    finally:
        for cf in cfs.values():
            cf.__exit__(None, None, None)
    part.sample({"program": p.id, "backend": "python+c++ Model", "temporaries": outs[True][0].value[1]})
    return part.d


def programs_for(tier, seed):
    if tier == "quick":
        return [CP.P7(), CP.P3(), CP.P8(), CP.P15(), CP.P17(), CP.P21(), CP.P22(), CP.P23(), CP.P24(), CP.P28(), CP.P32()]
    return CP.all_fixed() + [CP.P21(), CP.P22(), CP.P23(), CP.P24(), CP.P28(), CP.P32()] + CP.presence_variants(CP.P3())[1:] + [CP.random_program(seed, i) for i in range(10)]


def _dispatch(fn, args):
    return fn(*args)


def run(tier, seed):
    rep = Report(PID, tier, seed, "translation_validation")
    ps = programs_for(tier, seed)
    tasks = [(py_task, (p, tier, seed)) for p in ps] + [(cpp_task, (p, tier, seed)) for p in ps] + [(model_task, (CP.P11(), tier, seed)), (model_task, (CP.P18(), tier, seed))]
    for d in pmap(_dispatch, tasks):
        rep.merge(d)
    rep.bounds = {"programs": [p.id for p in ps], "inputs": "all reals where the expressions are defined", "outside": "floating-point rounding (CSE/simplify may legitimately reassociate)"}
    rep.assumptions = ["reals for doubles", "UF abstraction", "stand-in Eigen/Dense"]
    return finish(
        rep,
        explanation="Every BasicBlock-backed output (model, process/control/sensor Jacobians, sensor predictions) of the Python backend and every generated C++ function is executed symbolically with CSE on and with CSE off; on == off is proved per output for all inputs. Single assignment / definition before use of temporaries: C++ compile + text scan + poison variables; Python: missing keyword argument on execution.",
        rule="one obligation per (program, backend, output)",
        trusted_base=["z3 5.1", "engine/symreal", "engine/vsym"],
    )


def replay(path):
    with open(path) as f:
        r = json.load(f)
    info = r["info"]
    ps = {p.id: p for p in programs_for("thorough", int(r.get("seed", 0))) + programs_for("quick", 0) + [CP.P11(), CP.P18()]}
    p = ps[info["program"]]
    if info["kind"] in ("py-model", "cpp-model", "cpp-model-compile"):
        from . import c01

        p = {q.id: q for q in (CP.P11(), CP.P18())}[info["program"]]
        if info["kind"] == "py-model":
            a, b = c01.concrete_model(p, True, r["inputs"]), c01.concrete_model(p, False, r["inputs"])
            bad = [k for k in a if not approx_equal(a[k], b[k])]
            print(a, b)
            print("REPRODUCED" if bad else "not reproduced")
            return 1 if bad else 0
        e = dict(r["inputs"])
        for v in pyh.input_env(p):
            e.setdefault(v, 0.5)
        try:
            with CppFilter(p, ekf=False, cse=True) as c1, CppFilter(p, ekf=False, cse=False) as c0:
                a, _, _ = c1.run_concrete("", e)
                b, _, _ = c0.run_concrete("", e)
        except build.BuildError as ex:
            print("REPRODUCED: does not compile", ex.log[-800:])
            return 1
        bad = [k for k in a if not approx_equal(a[k], b[k])]
        print(a, b)
        print("REPRODUCED" if bad else "not reproduced")
        return 1 if bad else 0
    if info["kind"] == "py-event":
        why = event_differs(p, {k: float(v) for k, v in r["inputs"].items()})
        print(why)
        print("REPRODUCED" if why else "not reproduced")
        return 1 if why else 0
    if info["kind"] == "py":
        if info.get("output", "").startswith("second/"):
            e = r["inputs"]
            e1 = {n_: e.get(n_, 0.25) for n_ in pyh.input_env(p)}
            e2 = {n_: (e1[n_] if n_ in p.calibration else e.get(n_ + "__2", 0.5)) for n_ in e1}
            a, b = py_blocks_float_seq(p, True, [e1, e2]), py_blocks_float_seq(p, False, [e1, e2])
            bad = [k for k in a if not approx_equal(a[k], b[k])]
            print({k: (a[k], b[k]) for k in bad})
            print("REPRODUCED" if bad else "not reproduced")
            return 1 if bad else 0
        try:
            a, b = py_blocks_float(p, True, r["inputs"]), py_blocks_float(p, False, r["inputs"])
        except Exception as ex:
            print(f"REPRODUCED: raises {type(ex).__name__}: {ex}")
            return 1
        bad = [k for k in a if not approx_equal(a[k], b[k])]
        print({k: (a[k], b[k]) for k in bad})
        print("REPRODUCED" if bad else "not reproduced")
        return 1 if bad else 0
    if info["kind"] == "cpp-compile":
        try:
            with CppFilter(p, ekf=True, cse=info["cse"], k=None) as cf:
                cf.compile_symbolic()
        except build.BuildError as ex:
            print("REPRODUCED:", ex.log[-1200:])
            return 1
        print("not reproduced")
        return 0
    if info["kind"] == "cpp-structure":
        with CppFilter(p, ekf=True, cse=True, k=None) as cf:
            probs, _ = structural_cpp(cf.source_text)
        print(probs)
        return 1 if probs else 0
    e = dict(r["inputs"])
    for v in pyh.input_env(p):
        e.setdefault(v, 0.5)
    for i, a in enumerate(p.s_state()):
        for b in p.s_state()[i:]:
            e.setdefault(f"P_{a}_{b}", 1.0 if a == b else 0.0)
    for key in p.sensors:
        for rr in p.sensors[key]:
            e.setdefault(f"z_{key}_{rr}", 0.25)
    with CppFilter(p, ekf=True, cse=True, k=None) as c1, CppFilter(p, ekf=True, cse=False, k=None) as c0:
        a, _, _ = c1.run_concrete(info["scenario"], e)
        b, _, _ = c0.run_concrete(info["scenario"], e)
    print(a[info["output"]], b[info["output"]])
    if not approx_equal(a[info["output"]], b[info["output"]]):
        print("REPRODUCED")
        return 1
    print("not reproduced")
    return 0
