"""C01 - compiled Python model == the user's symbolic state model (E1; translation validation)."""
from __future__ import annotations

from fractions import Fraction
import json
import random

import z3

from corpus import programs as CP
from engine.symreal import expr as X
from engine.symreal.core import SymReal, explore, lift
from engine.symreal.shim import installed
from engine.symreal.zutil import zeval

from . import pyh
from .common import Part, Report, approx_equal, finish, pmap, quiet, tier_timeout_ms, write_replay
from .oblig import prove_equal, reach

PID = "C01"


def _ui(p):
    return p.ui_model(proactive_simplify=getattr(p, "proactive_simplify", False))


def with_proactive(p):
    q = p.restrict(pid=p.id + "+proactive_simplify")
    q.proactive_simplify = True
    return q


def concrete_model(p, cse, env):
    """The real, unshimmed code in floats: returns {state name: value} read by harness-sorted index."""
    from formak import python

    with quiet():
        pm = python.compile(_ui(p), pyh.float_calibration_map(p, env), config=pyh.py_config(cse))
        out = pm.model(float(env[p.dt]), pm.State(**{s: float(env[s]) for s in p.state}), pm.Control(**{c: float(env[c]) for c in p.control}))
    ss = p.s_state()
    return {s: float(out.data[ss.index(s), 0]) for s in p.state}


def concrete_model_sequence(p, cse, envs, hold_first=False):
    """Real code in floats: ONE compiled model, evaluated at each env in turn.
    hold_first: return the FIRST call's State object read *after* the later calls (aliasing)."""
    from formak import python

    outs = []
    first = None
    with quiet():
        pm = python.compile(_ui(p), pyh.float_calibration_map(p, envs[0]), config=pyh.py_config(cse))
        ss = p.s_state()
        for env in envs:
            out = pm.model(float(env[p.dt]), pm.State(**{s: float(env[s]) for s in p.state}), pm.Control(**{c: float(env[c]) for c in p.control}))
            if first is None:
                first = out
            outs.append({s: float(out.data[ss.index(s), 0]) for s in p.state})
    if hold_first:
        return {s: float(first.data[ss.index(s), 0]) for s in p.state}
    return outs


def task(pd, cse, tier, seed):
    p = pd
    part = Part()
    part.program(p.id)
    part.fn("python.compile", "python.Model.__init__", "python.Model.model", "python.BasicBlock._compile", "python.BasicBlock.execute", "common.model_validation", "common.named_vector")
    from formak import python

    env = pyh.input_env(p)
    spec, assumes = pyh.spec_update(p, env)
    tmo = tier_timeout_ms(tier)
    key_base = f"{p.id}/cse={int(cse)}"

    # --- encoding validation + concrete behaviour of the real code on valid inputs
    names = list(env)
    pts = pyh.seeded_points(names, seed + 17, n=2)
    if p.id == "P1-xy":
        pts.insert(0, {"x": 1.0, "y": 1.0, "a": 0.2, "dt": 0.1})
    concrete = []
    for pt in pts:
        want = pyh.evalf_spec(p.update, pt)
        try:
            got = concrete_model(p, cse, pt)
        except Exception as e:
            path = write_replay(PID, {"key": key_base + "/concrete-exception", "program": p.id, "cse": cse, "inputs": pt, "expected": want, "exception": f"{type(e).__name__}: {e}", "kind": "concrete"})
            part.violation(key_base + "/concrete-exception", f"Model.model raises {type(e).__name__} on a valid input {pt}", path)
            return part.d
        concrete.append((pt, got, want))

    # --- symbolic execution of the real code
    env2 = pyh.second_env(env, keep=p.calibration)

    def harness():
        with installed(), quiet():
            pm = python.compile(_ui(p), pyh.sym_calibration_map(p, env), config=pyh.py_config(cse))
            out = pm.model(SymReal(env[p.dt]), pm.State(**pyh.sym_state_kwargs(p.state, env)), pm.Control(**pyh.sym_state_kwargs(p.control, env)))
            snap1 = out.data.copy()
            # history dimension: a later call on the same compiled model with independent inputs
            out2 = pm.model(SymReal(env2[p.dt]), pm.State(**pyh.sym_state_kwargs(p.state, env2)), pm.Control(**pyh.sym_state_kwargs(p.control, env2)))
            stable = all(lift(a).eq(lift(b)) for a, b in zip(snap1.reshape(-1), out.data.reshape(-1)))
            out = pm.State.from_data(snap1)  # the value the first call returned, whatever happened to the object later
        return out, out2, stable

    leaves = explore(harness, assumes=assumes)
    part.leaves(leaves)
    if any(l.status != "ok" for l in leaves):
        bad = [l for l in leaves if l.status != "ok"][0]
        e0 = pyh.seeded_points(list(env), seed + 2, 1)[0]
        try:
            concrete_model_sequence(p, cse, [e0, pyh.seeded_points(list(env), seed + 6, 1)[0]])
            part.harness_error(f"{key_base}: a symbolic path failed ({bad}) but the concrete two-call sequence succeeds")
        except Exception as ex:
            path = write_replay(PID, {"key": key_base + "/raises", "info": {"program": p.id, "cse": cse, "kind": "model"}, "inputs": e0, "exception": f"{type(ex).__name__}: {ex}"})
            part.violation(key_base + "/raises", f"Model.model raises {type(ex).__name__}: {ex}", path)
        return part.d
    base_assumes, key_base0 = assumes, key_base
    from .common import solve as _solve

    for li, leaf in enumerate(leaves):
        assumes = base_assumes + leaf.pc
        if len(leaves) > 1:
            if _solve(assumes, 5000).status == "unsat":
                continue
            key_base = f"{key_base0}/path{li}"
        out, out2, stable = leaf.value
        from .common import Q

        part.record(Q("unsat" if stable else "sat", None, 0.0, ""), f"{key_base}: the state returned by an earlier call is unchanged by a later call (no aliasing)")
        if not stable:
            e1 = pyh.seeded_points(list(env), seed + 3, 1)[0]
            e2 = pyh.seeded_points(list(env), seed + 4, 1)[0]
            held = concrete_model_sequence(p, cse, [e1, e2], hold_first=True)
            fresh = concrete_model(p, cse, e1)
            bad = {s: (held[s], fresh[s]) for s in p.state if not approx_equal(held[s], fresh[s])}
            if bad:
                path = write_replay(PID, {"key": key_base + "/aliasing", "info": {"program": p.id, "cse": cse, "kind": "aliasing"}, "inputs": {"first": e1, "second": e2}, "changed": bad})
                part.violation(key_base + "/aliasing", f"the State returned by model() for {e1} changed after a later call with {e2}: {bad}", path)
            else:
                part.harness_error(f"{key_base}: symbolic aliasing not reproduced concretely")
        ss = p.s_state()
        impl = {s: lift(out.data[ss.index(s), 0]) for s in p.state}
        reach(part, key_base + "/assumptions-sat", assumes)

        # encoding validation: the symbolic impl term evaluated at the points == the concrete run
        for pt, got, want in concrete:
            try:
                if leaf.pc and not all(zeval(c_, pt) for c_ in leaf.pc):
                    continue
            except KeyError:
                continue
            for s in p.state:
                v = zeval(impl[s], pt)
                if not approx_equal(v, got[s]):
                    part.harness_error(f"{key_base}: encoding validation failed for {s} at {pt}: symbolic {v} vs concrete {got[s]}")

        def mk_replay(s):
            def replay(e):
                got = concrete_model(p, cse, e)
                return {"impl": got[s], "spec": X.evalf(p.update[s], e)}

            return replay

        for s in p.state:
            st = prove_equal(part, PID, f"{key_base}/model[{s}]==spec", impl[s], spec[s], assumes, tmo, replay=mk_replay(s), key=f"{key_base}/model[{s}]", info={"program": p.id, "cse": cse, "state": s, "kind": "model"}, all_vars=env)
        # second call on the same object, fresh inputs: must be the specification at the *new* inputs
        assumes2 = assumes + [pyh.subst_env(a, env, env2) for a in assumes]

        def mk_replay2(s):
            def replay(e):
                e1 = {n: e.get(n, 0.5) for n in env}
                e2 = {n: e.get(env2[n].decl().name(), 0.5) for n in env}
                for c in p.calibration:
                    e2[c] = e1[c]
                got = concrete_model_sequence(p, cse, [e1, e2])[1]
                return {"impl": got[s], "spec": X.evalf(p.update[s], e2)}

            return replay

        allv2 = dict(env)
        allv2.update({v.decl().name(): v for v in env2.values()})

        def colliding_envs(rng, cnt):
            """Candidate input pairs that differ although their float hashes collide (hash(-1.0) == hash(-2.0),
            hash(1.0) == hash(2.0**61)): what a memo keyed on hash() instead of equality confuses."""
            out = []
            for a, b in ((-1.0, -2.0), (1.0, 2.0**61 if False else 1.0)):
                for v in env:
                    if v in p.calibration:
                        continue
                    e = {n: a for n in env}
                    for n in env:
                        if n not in p.calibration:
                            e[env2[n].decl().name()] = a
                    e[env2[v].decl().name()] = b
                    if a != b:
                        out.append(e)
            rng.shuffle(out)
            return out[: max(cnt, 8)]

        for s in p.state:
            prove_equal(part, PID, f"{key_base}/second call model[{s}]==spec at the new inputs", lift(out2.data[ss.index(s), 0]), pyh.subst_env(spec[s], env, env2), assumes2, tmo, replay=mk_replay2(s), key=f"{key_base}/second-call[{s}]", info={"program": p.id, "cse": cse, "state": s, "kind": "second-call"}, all_vars=allv2, seeded_envs=colliding_envs)
    assumes, key_base = base_assumes, key_base0
    part.sample({"program": p.id, "cse": cse, "state": ss[0], "impl": str(z3.simplify(impl[ss[0]]))[:200], "spec": str(spec[ss[0]])[:200]})
    return part.d


def task_cse_pair(pd, tier, seed):
    """CSE on vs off directly (no specification needed)."""
    p = pd
    part = Part()
    part.program(p.id)
    from formak import python

    env = pyh.input_env(p)
    _, assumes = pyh.spec_update(p, env)
    outs = {}
    for cse in (True, False):

        def harness():
            with installed(), quiet():
                pm = python.compile(_ui(p), pyh.sym_calibration_map(p, env), config=pyh.py_config(cse))
                return pm.model(SymReal(env[p.dt]), pm.State(**pyh.sym_state_kwargs(p.state, env)), pm.Control(**pyh.sym_state_kwargs(p.control, env)))

        ls = explore(harness, assumes=assumes)
        part.leaves(ls)
        if not ls or any(l.status != "ok" for l in ls):
            part.harness_error(f"{p.id}: cse pair: {ls}")
            return part.d
        outs[cse] = ls
    ss = p.s_state()
    from .common import solve as _solve

    multi = len(outs[True]) > 1 or len(outs[False]) > 1
    matched = 0
    for i, on in enumerate(outs[True]):
        for j, off in enumerate(outs[False]):
            pa = assumes + on.pc + off.pc
            if multi and _solve(pa, 5000).status == "unsat":
                continue
            matched += 1
            for s in p.state:
                a, b = lift(on.value.data[ss.index(s), 0]), lift(off.value.data[ss.index(s), 0])

                def replay(e, s=s):
                    return {"impl": concrete_model(p, True, e)[s], "spec": concrete_model(p, False, e)[s]}

                tag = f"/path{i}x{j}" if multi else ""
                prove_equal(part, PID, f"{p.id}{tag}/model[{s}] cse-on==cse-off", a, b, pa, tier_timeout_ms(tier), replay=replay, key=f"{p.id}/cse-pair[{s}]", info={"program": p.id, "state": s, "kind": "cse-pair"}, all_vars=env)
    if matched == 0:
        part.harness_error(f"{p.id}: cse pair: no jointly feasible pair of paths")
    return part.d


def programs_for(tier, seed):
    if tier == "quick":
        ps = [CP.P1(), CP.P3(), CP.P8(), CP.P7(), CP.P11(), CP.P17(), CP.P18(), CP.P22(), CP.P23(), CP.P24(), CP.P29(), with_proactive(CP.P3())]
        ps += [CP.P3().restrict(control=False, calibration=True), CP.P3().restrict(control=True, calibration=False)]
        return ps
    ps = CP.all_fixed() + [CP.P11(), CP.P18(), CP.P22(), CP.P23(), CP.P24(), CP.P29(), with_proactive(CP.P3()), with_proactive(CP.P10()), with_proactive(CP.P7())]
    ps += CP.presence_variants(CP.P3())[1:] + CP.presence_variants(CP.P10())[1:]
    ps += [CP.random_program(seed, i) for i in range(10)]
    return ps


def task_regimes(pd, cse, tier, seed):
    """Concrete replays in value regimes (tiny states / controls, huge states): see pyh.regime_envs."""
    import math
    import random

    p = pd
    part = Part()
    part.program(p.id)
    part.fn("python.compile", "python.Model.model", "common.named_vector")
    rng = random.Random(seed + 917)
    for rnd in range(1 if tier == "quick" else 3):
        for label, e in pyh.regime_envs(p, rng):
            if label == "tiny-cov":
                continue
            kb = f"{p.id}/cse={int(cse)}/regime={label}"
            info = {"program": p.id, "cse": cse, "kind": "regime", "regime": label}
            try:
                want = {s: X.evalf(p.update[s], e) for s in p.state}
                mags = {s: X.evalmag(p.update[s], e) for s in p.state}
            except (ZeroDivisionError, ValueError, OverflowError):
                continue
            if not all(math.isfinite(want[s]) and math.isfinite(mags[s]) for s in p.state):
                continue
            try:
                got = concrete_model(p, cse, e)
            except Exception as ex:
                path = write_replay(PID, {"key": kb, "info": info, "inputs": e, "exception": f"{type(ex).__name__}: {ex}"})
                part.violation(kb, f"Model.model raises {type(ex).__name__}: {ex} on a valid input in the {label} regime ({e})", path)
                continue
            bad = [s for s in p.state if not (math.isfinite(got[s]) and abs(got[s] - want[s]) <= 1e-9 * mags[s] + 1e-300)]
            from .common import Q

            part.record(Q("sat" if bad else "unsat", None, 0.0, ""), f"{kb}: model == specification relative to operand magnitude (concrete replay)")
            if bad:
                path = write_replay(PID, {"key": kb, "info": info, "inputs": e})
                part.violation(kb, f"Model.model differs from the update expressions in the {label} regime at {e}: " + ", ".join(f"{s}: got {got[s]!r} expected {want[s]!r}" for s in bad[:3]), path)
    return part.d


def _exp_arguments(terms):
    """Arguments of every exp application inside the z3 terms produced by the symbolic run."""
    seen, out = set(), []

    def walk(t):
        if t.get_id() in seen:
            return
        seen.add(t.get_id())
        if z3.is_app(t) and t.num_args() == 1 and "exp" in t.decl().name():
            out.append(t.arg(0))
        for ch in t.children():
            walk(ch)

    for t in terms:
        walk(t)
    return out


def task_events(pd, cse, tier, seed):
    """Floating-point events (companion, solver-directed): for every exp(...) the real compiled model evaluates, z3 picks a
    float-exact input at which the argument lies in [-1000, -760] (the result underflows to 0.0, nothing overflows); the
    real code must return the specification's value there, relative to operand magnitude."""
    import math

    from formak import python

    from .common import Q, dyadic_box, solve

    p = pd
    part = Part()
    part.program(p.id)
    part.fn("python.compile", "python.Model.model", "python.BasicBlock.execute")
    env = pyh.input_env(p)
    _, assumes = pyh.spec_update(p, env)

    def harness():
        with installed(), quiet():
            pm = python.compile(_ui(p), pyh.sym_calibration_map(p, env), config=pyh.py_config(cse))
            out = pm.model(SymReal(env[p.dt]), pm.State(**pyh.sym_state_kwargs(p.state, env)), pm.Control(**pyh.sym_state_kwargs(p.control, env)))
        return [lift(v) for v in out.data.reshape(-1)]

    leaves = explore(harness, assumes=assumes)
    part.leaves(leaves)
    n = 0
    for leaf in leaves:
        if leaf.status != "ok":
            continue
        for a in _exp_arguments(leaf.value)[:8]:
            q = solve(assumes + leaf.pc + [a <= -760, a >= -1000, env[p.dt] > 0] + dyadic_box(env, lo=-64, hi=64, denom=4), 5000, tag=f"{p.id}/event")
            if q.status != "sat":
                continue
            n += 1
            e = {n_: float(q.model.get(n_, Fraction(1, 4))) for n_ in env}
            kb = f"{p.id}/cse={int(cse)}/event-underflow"
            info = {"program": p.id, "cse": cse, "kind": "regime", "regime": "exp underflow"}
            try:
                want = pyh.evalf_spec(p.update, e)
                mags = {s: X.evalmag(p.update[s], e) for s in p.state}
            except Exception:
                n -= 1
                continue  # the specification itself is not defined in doubles here (e.g. an overflow elsewhere)
            if not all(math.isfinite(want[s]) and math.isfinite(mags[s]) for s in p.state):
                n -= 1
                continue
            try:
                got = concrete_model(p, cse, e)
            except Exception as ex:
                path = write_replay(PID, {"key": kb, "info": info, "inputs": e, "exception": f"{type(ex).__name__}: {ex}"})
                part.violation(kb, f"Model.model raises {type(ex).__name__}: {ex} at {e}, where the update expressions are defined (an exp argument lies in [-1000, -760]: the result underflows)", path)
                return part.d
            bad = [s for s in p.state if not (math.isfinite(got[s]) and abs(got[s] - want[s]) <= 1e-9 * mags[s] + 1e-300)]
            part.record(Q("sat" if bad else "unsat", None, 0.0, ""), f"{kb}: model == specification at a solver-picked underflow point (concrete replay)")
            if bad:
                path = write_replay(PID, {"key": kb, "info": info, "inputs": e})
                part.violation(kb, f"Model.model differs from the update expressions at the underflow point {e}: " + ", ".join(f"{s}: got {got[s]!r} expected {want[s]!r}" for s in bad[:3]), path)
                return part.d
    part.extra("py_underflow_event_points", n)
    if n == 0 and p.id == "P33-gaussian-weight":
        part.harness_error(f"{p.id}: vacuity: no underflow point found for any exp application")
    return part.d


def run(tier, seed):
    rep = Report(PID, tier, seed, "translation_validation")
    ps = programs_for(tier, seed)
    tasks = [(task, (p, cse, tier, seed)) for p in ps for cse in (True, False)] + [(task_cse_pair, (p, tier, seed)) for p in ps] + [(task_regimes, (p, cse_, tier, seed)) for p in ps + [CP.P27()] for cse_ in ((True,) if p.id != "P27-reciprocal-trig" else (True, False))]
    from .common import pmap_staged

    from .common import with_extra_validation

    tasks += [(with_extra_validation, (task, CP.P3(), True, tier, seed)), (with_extra_validation, (task, CP.P1(), False, tier, seed))]
    tasks += [(task_events, (CP.P33(), True, tier, seed)), (task_events, (CP.P33(), False, tier, seed)), (with_extra_validation, (task_events, CP.P33(), True, tier, seed)), (with_extra_validation, (task_events, CP.P33(), False, tier, seed))]
    if tier == "thorough":
        tasks += [(with_extra_validation, (task_events, p_, True, tier, seed)) for p_ in ps]
    first = [t for t in tasks if t[0] is task_regimes]
    for d in pmap_staged(_dispatch, first, [t for t in tasks if t[0] is not task_regimes]):
        rep.merge(d)
    rep.bounds = {"programs": [p.id for p in ps], "cse": [True, False], "inputs": "all reals where the specification's denominators are non-zero", "outside": "floating-point rounding; programs outside the corpus; strapdown model is decided under C19"}
    rep.assumptions = ["reals for doubles; float literals as exact rationals", "sin/cos/exp/sqrt as uninterpreted functions with sound axioms", "numpy shim (zeros/eye/array/allclose/any/isfinite) - see DESIGN 7"]
    return finish(
        rep,
        explanation="Each obligation is 'output slot of the real compiled Model.model (executed on z3-backed symbolic reals) == the user's update expression' for all real inputs, decided unsat/sat by z3; sat answers are replayed on the unshimmed code.",
        rule="one obligation per (program, CSE setting, state variable) plus CSE-on==CSE-off per state variable; distinct = distinct obligation names decided",
        trusted_base=["z3 5.1", "engine/symreal (operator-overloading executor + numpy shim)", "corpus algebra -> sympy/z3 renderers"],
    )


def _dispatch(fn, args):
    return fn(*args)


def replay(path):
    with open(path) as f:
        r = json.load(f)
    info = r.get("info", {})
    pid = r.get("program") or info.get("program")
    cse = r.get("cse", info.get("cse", True))
    ps = {p.id: p for p in programs_for("thorough", int(r.get("seed", 0))) + CP.catalogue()}
    p = ps[pid]
    env = r["inputs"]
    if info.get("kind") == "regime":
        import math

        try:
            got = concrete_model(p, cse, env)
        except Exception as e:
            print(f"REPRODUCED: real code raises {type(e).__name__}: {e}")
            return 1
        bad = {s: (got[s], X.evalf(p.update[s], env)) for s in p.state if not (math.isfinite(got[s]) and abs(got[s] - X.evalf(p.update[s], env)) <= 1e-9 * X.evalmag(p.update[s], env) + 1e-300)}
        print("REPRODUCED:" if bad else "not reproduced", bad)
        return 1 if bad else 0
    want = pyh.evalf_spec(p.update, env) if info.get("kind") != "aliasing" else {}
    try:
        got = concrete_model(p, cse, env) if info.get("kind") != "aliasing" else {}
    except Exception as e:
        print(f"REPRODUCED: real code raises {type(e).__name__}: {e}")
        return 1
    bad = {s: (got[s], want[s]) for s in p.state if s in got and not approx_equal(got[s], want[s])}
    if info.get("kind") == "aliasing":
        e1, e2 = env["first"], env["second"]
        held = concrete_model_sequence(p, cse, [e1, e2], hold_first=True)
        fresh = concrete_model(p, cse, e1)
        bad = {s: (held[s], fresh[s]) for s in p.state if not approx_equal(held[s], fresh[s])}
        print(bad)
        print("REPRODUCED" if bad else "not reproduced")
        return 1 if bad else 0
    if info.get("kind") == "second-call":
        e1 = {n: env.get(n, 0.5) for n in pyh.input_env(p)}
        e2 = {n: env.get(n + "__2", e1[n]) for n in e1}
        got = concrete_model_sequence(p, cse, [e1, e2])[1]
        want2 = pyh.evalf_spec(p.update, e2)
        bad = {s: (got[s], want2[s]) for s in p.state if not approx_equal(got[s], want2[s])}
        print("second call:", got, "want", want2)
        print("REPRODUCED" if bad else "not reproduced")
        return 1 if bad else 0
    if info.get("kind") == "cse-pair":
        other = concrete_model(p, False, env)
        bad = {s: (got[s], other[s]) for s in p.state if not approx_equal(got[s], other[s])}
    print("got", got, "want", want)
    if bad:
        print("REPRODUCED:", bad)
        return 1
    print("not reproduced")
    return 0
