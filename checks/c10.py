"""C10 - the managed filter moves through time in bounded, correctly directed steps (E1 + E2)."""
from __future__ import annotations

import json
import random
from types import SimpleNamespace

import z3

from engine.symreal.core import SymReal, explore, lift, qval

from .common import Part, Q, Report, dyadic_box, finish, free_vars, pmap, quiet, solve, tier_timeout_ms, write_replay
from .oblig import env_from_model, reach

PID = "C10"
TOL = 1e-9


def _SC(state, covariance):
    from formak import python

    return python.StateAndCovariance(state, covariance)


class RecordingFilter:
    """Stand-in filter: records the dt of every process_model call, passes state/covariance through."""

    def __init__(self, max_dt, control_size=0):
        self.config = SimpleNamespace(max_dt_sec=max_dt)
        self.control_size = control_size
        self.dts = []

    def process_model(self, dt, state, covariance, control=None):
        self.dts.append(dt)
        return _SC(state, covariance)

    def sensor_model(self, state, covariance, *, sensor_key, sensor_reading):
        self.dts.append("S")
        return _SC(state, covariance)

    def make_reading(self, key, **kw):
        return kw


def split_legs(events):
    legs, cur = [], []
    for ev in events:
        if isinstance(ev, str) and ev == "S":
            legs.append(cur)
            cur = []
        else:
            cur.append(ev)
    legs.append(cur)
    return legs


def float_steps(t0, t1, max_dt, ts=()):
    """Real runtime in floats; returns the list of legs (one per reading + the final one), each a list of dts."""
    from formak import runtime

    f = RecordingFilter(float(max_dt))
    mf = runtime.ManagedFilter(f, float(t0), "s", "P")
    rds = [runtime.StampedReading(float(t), "a", v=1.0) for t in ts]
    mf.tick(float(t1), readings=rds)
    return [[float(d) for d in leg] for leg in split_legs(f.dts)]


def violates_legs(t0, t1, max_dt, ts, legs):
    probs = []
    cur = t0
    for target, leg in zip(list(ts) + [t1], legs):
        probs += violates_float(cur, target, max_dt, leg)
        cur = target
    return probs


def violates_float(t0, t1, max_dt, dts):
    import math

    delta = t1 - t0
    # a few spacings of the representable times involved (the property speaks of "moderate" magnitudes, where 1e-9 s
    # exceeds that spacing); a tolerance proportional to 1e-12 |t| would hide nanosecond-level drift at t ~ 1e5
    eps = 8 * math.ulp(max(1.0, abs(t0), abs(t1)))
    probs = []
    if delta == 0 and dts:
        probs.append("steps taken although the times coincide")
    for d in dts:
        if delta > 0 and not d > 0 or delta < 0 and not d < 0:
            probs.append(f"step {d} points against the direction of travel {delta}")
        if abs(d) > max_dt * (1 + 1e-9) + eps:
            probs.append(f"step {d} longer than max_dt {max_dt}")
    if abs(math.fsum(dts) - delta) > TOL + eps:
        probs.append(f"steps sum to {math.fsum(dts)!r} but the time difference is {delta!r}")
    return probs


def py_task(K, tier, seed, nread=0):
    part = Part()
    part.program("runtime.ManagedFilter")
    part.fn("runtime.ManagedFilter.tick", "runtime.ManagedFilter._process_model")
    from formak import runtime

    t0, t1, md = z3.Real("t0"), z3.Real("t1"), z3.Real("max_dt")
    tsv = [z3.Real(f"ts{i}") for i in range(nread)]
    assumes = [md >= qval(1e-9), md <= 10, t0 >= -1000, t0 <= 1000, t1 >= -1000, t1 <= 1000] + [z3.And(t >= -1000, t <= 1000) for t in tsv]

    def harness():
        f = RecordingFilter(SymReal(md))
        mf = runtime.ManagedFilter(f, SymReal(t0), "s", "P")
        rds = [runtime.StampedReading(SymReal(t), "a", v=1.0) for t in tsv]
        mf.tick(SymReal(t1), readings=rds)
        return f.dts, mf.current_time

    leaves = explore(harness, assumes=assumes, kmax=K, max_paths=2000)
    part.leaves(leaves)
    tmo = tier_timeout_ms(tier)
    key_base = f"py/K={K}/readings={nread}"
    ok_leaves = [l for l in leaves if l.status == "ok"]
    exc = [l for l in leaves if l.status == "exc"]
    if exc:
        part.harness_error(f"{key_base}: tick raised on a symbolic path: {exc[0]}")
        return part.d
    if not ok_leaves:
        part.harness_error(f"{key_base}: no complete path")
        return part.d
    reported = False
    for li, l in enumerate(ok_leaves):
        events, held = l.value
        legs = split_legs(events)
        pc = assumes + l.pc
        claims = []
        cur = t0
        for gi, (target, leg) in enumerate(zip(tsv + [t1], legs)):
            delta = target - cur
            dts_t = [lift(d) for d in leg]
            for i, d in enumerate(dts_t):
                claims.append((f"leg{gi} step{i} points in the direction of travel", z3.And(z3.Implies(delta > 0, d > 0), z3.Implies(delta < 0, d < 0), z3.Implies(delta == 0, False))))
                claims.append((f"leg{gi} |step{i}| <= max_dt", z3.And(d <= md, -d <= md)))
            tot = z3.RealVal(0)
            for d in dts_t:
                tot = tot + d
            claims.append((f"leg{gi} sum of steps within 1e-9 of the time difference", z3.And(tot - delta <= qval(TOL), delta - tot <= qval(TOL))))
            cur = target
        nsteps = sum(len(g) for g in legs)
        for nm, cl in claims:
            q = solve(pc + [z3.Not(cl)], tmo)
            part.record(q, f"{key_base}/leaf{li}[{nsteps} steps]: {nm}")
            if q.status == "sat" and not reported:
                # replay witness: moderate max_dt, times on a dyadic grid
                vars_ = {"t0": t0, "t1": t1, "max_dt": md}
                tvars = {"t0": t0, "t1": t1}
                for i, t in enumerate(tsv):
                    vars_[f"ts{i}"] = t
                    tvars[f"ts{i}"] = t
                q2 = solve(pc + [z3.Not(cl), md >= qval(0.01), md <= 1] + dyadic_box(tvars, -8, 8, 16) + dyadic_box({"max_dt": md}, 0, 1, 64), 10000)
                cands = []
                if q2.status == "sat":
                    cands.append(env_from_model(q2.model, vars_))
                cands.append(env_from_model(q.model, vars_))
                for e in cands:
                    part.d["witnesses"] += 1
                    tsf = [e[f"ts{i}"] for i in range(nread)]
                    try:
                        got = float_steps(e["t0"], e["t1"], e["max_dt"], tsf)
                        probs = violates_legs(e["t0"], e["t1"], e["max_dt"], tsf, got)
                    except Exception as ex:
                        got, probs = None, [f"raises {type(ex).__name__}: {ex}"]
                    if probs:
                        direction = "backward" if e["t1"] < e["t0"] else "forward"
                        key = f"py/_process_model/{direction}" if nread == 0 else f"py/tick-with-reading/{direction}"
                        path = write_replay(PID, {"key": key, "info": {"kind": "py"}, "inputs": e, "ts": tsf, "steps": got, "problems": probs})
                        part.violation(key, f"Python runtime: t0={e['t0']} readings at {tsf} -> t1={e['t1']} max_dt={e['max_dt']}: steps per leg {got}: {probs[0]}", path)
                        reported = True
                        break
                else:
                    part.d["inconclusive"].append(f"{key_base}/leaf{li}: {nm} sat, not reproduced in floats")
    # vacuity: at least one leaf each: forward with steps, backward with steps, no steps
    kinds = {"forward": 0, "backward": 0, "none": 0}
    delta = t1 - (tsv[-1] if tsv else t0)
    for l in ok_leaves:
        dts, _ = l.value
        dts = split_legs(dts)[-1]
        if not dts:
            kinds["none"] += 1
            continue
        q = solve(assumes + l.pc + [delta > 0], 5000)
        if q.status == "sat":
            kinds["forward"] += 1
        q = solve(assumes + l.pc + [delta < 0], 5000)
        if q.status == "sat":
            kinds["backward"] += 1
    for k_, v in kinds.items():
        if v == 0:
            part.harness_error(f"{key_base}: vacuity: no leaf of kind {k_}")
    part.extra("py_leaf_kinds", [kinds])
    part.sample({"impl": "python", "K": K, "leaves": len(ok_leaves), "cut": sum(1 for l in leaves if l.status == "cut"), "example_steps": [str(z3.simplify(lift(d))) for d in ok_leaves[-1].value[0] if not isinstance(d, str)][:4]})
    return part.d


def py_task_two_ticks(K, tier, seed):
    """History dimension: a second tick on the same managed filter (after an output-only tick, which holds nothing)
    must again move from the held time to its own target in bounded, correctly directed steps."""
    part = Part()
    part.program("runtime.ManagedFilter")
    part.fn("runtime.ManagedFilter.tick", "runtime.ManagedFilter._process_model")
    from formak import runtime

    t0, o1, o2, md = z3.Real("t0"), z3.Real("out1"), z3.Real("out2"), z3.Real("max_dt")
    assumes = [md >= qval(1e-9), md <= 10] + [z3.And(t >= -1000, t <= 1000) for t in (t0, o1, o2)]

    def harness():
        f = RecordingFilter(SymReal(md))
        mf = runtime.ManagedFilter(f, SymReal(t0), "s", "P")
        mf.tick(SymReal(o1))
        n1 = len(f.dts)
        mf.tick(SymReal(o2))
        return f.dts[n1:], mf.current_time

    leaves = explore(harness, assumes=assumes, kmax=K, max_paths=4000)
    part.leaves(leaves)
    tmo = tier_timeout_ms(tier)
    ok_leaves = [l for l in leaves if l.status == "ok"]
    if any(l.status == "exc" for l in leaves):
        part.harness_error(f"py/two-ticks: tick raised: {[l for l in leaves if l.status == 'exc'][0]}")
        return part.d
    delta = o2 - t0
    reported = False
    for li, l in enumerate(ok_leaves):
        dts, held = l.value
        dts_t = [lift(d) for d in dts]
        pc = assumes + l.pc
        claims = [("held time unchanged by output-only ticks", lift(held) == t0)]
        for i, d in enumerate(dts_t):
            claims.append((f"second tick step{i} direction", z3.And(z3.Implies(delta > 0, d > 0), z3.Implies(delta < 0, d < 0), z3.Implies(delta == 0, False))))
            claims.append((f"second tick |step{i}| <= max_dt", z3.And(d <= md, -d <= md)))
        tot = z3.RealVal(0)
        for d in dts_t:
            tot = tot + d
        claims.append(("second tick steps sum to its own time difference", z3.And(tot - delta <= qval(TOL), delta - tot <= qval(TOL))))
        for nm, cl in claims:
            q = solve(pc + [z3.Not(cl)], tmo)
            part.record(q, f"py/two-ticks/K={K}/leaf{li}: {nm}")
            if q.status == "sat" and not reported:
                vars_ = {"t0": t0, "out1": o1, "out2": o2, "max_dt": md}
                q2 = solve(pc + [z3.Not(cl), md >= qval(0.01), md <= 1] + dyadic_box({"t0": t0, "out1": o1, "out2": o2}, -8, 8, 16) + dyadic_box({"max_dt": md}, 0, 1, 64), 10000)
                cands = ([env_from_model(q2.model, vars_)] if q2.status == "sat" else []) + [env_from_model(q.model, vars_)]
                for e in cands:
                    part.d["witnesses"] += 1
                    f = RecordingFilter(float(e["max_dt"]))
                    mf = runtime.ManagedFilter(f, float(e["t0"]), "s", "P")
                    mf.tick(float(e["out1"]))
                    n1 = len(f.dts)
                    mf.tick(float(e["out2"]))
                    got = [float(d) for d in f.dts[n1:]]
                    probs = violates_float(e["t0"], e["out2"], e["max_dt"], got)
                    if mf.current_time != e["t0"]:
                        probs.append(f"held time moved to {mf.current_time} by output-only ticks")
                    if probs:
                        path = write_replay(PID, {"key": "py/two-ticks", "info": {"kind": "py-two-ticks"}, "inputs": e, "steps": got, "problems": probs})
                        part.violation("py/two-ticks", f"second tick after an output-only tick: t0={e['t0']} out1={e['out1']} out2={e['out2']} max_dt={e['max_dt']}: steps {got}: {probs[0]}", path)
                        reported = True
                        break
                else:
                    part.d["inconclusive"].append(f"py/two-ticks/leaf{li}: {nm} sat, not reproduced")
    part.sample({"impl": "python", "scenario": "two output-only ticks", "K": K, "leaves": len(ok_leaves)})
    return part.d


def long_run_task(tier, seed):
    """Long moves at large (but moderate) clock values, in floats: hundreds to thousands of maximum-length steps from
    t ~ 1e5 .. 1e6 s.  The solver clauses are exact-real and bounded by K full steps; what can only go wrong in doubles
    over many steps (accumulated drift of an iterated `t += max_dt`) is replayed here on the real runtimes."""
    import math
    import random

    part = Part()
    part.program("runtime")
    part.fn("runtime.ManagedFilter.tick", "runtime.ManagedFilter._process_model", "ManagedFilter::processUpdate")
    rng = random.Random(seed + 5)
    cases = [(100000.0, 60.0, 0.1), (250000.0, 10.0, 0.01), (1000.0, 12.5, 0.001), (-131072.5, 25.0, 0.05), (1000000.0, 12.5, 0.025)]
    if tier != "quick":
        cases += [(86400.0 * 30, 30.0, 0.1), (65536.0, 100.0, 1.0 / 30.0), (3.0e5, 7.0, 0.007)]
    for t0, span, md in cases:
        for sign in (1.0, -1.0):
            t1 = t0 + sign * (span + rng.randint(1, 7) / 8.0 * md)
            key = f"long-run/py/t0={t0}/span={sign * span}/max_dt={md}"
            legs = float_steps(t0, t1, md)
            probs = violates_legs(t0, t1, md, (), legs)
            part.record(Q("sat" if probs else "unsat", None, 0.0, ""), f"{key}: {sum(len(l) for l in legs)} steps: direction, length and sum within 1e-9 (concrete replay)")
            if probs:
                path = write_replay(PID, {"key": key, "info": {"kind": "py-long"}, "inputs": {"t0": t0, "t1": t1, "max_dt": md}, "problems": probs[:5], "n_steps": sum(len(l) for l in legs)})
                part.violation(key, f"Python runtime: t0={t0} -> t1={t1} max_dt={md}: {probs[0]}", path)
                return part.d
    # seeded sweep of ordinary moves in doubles (exact multiples of the step included): what is equal over the reals
    # (a remainder taken with fmod, a step count taken with int()) need not be equal in doubles
    mds = [0.1, 0.05, 0.01, 1.0 / 3.0, 1.0 / 30.0, 0.25, 3.0 / 7.0]
    n_moves = 1500 if tier == "quick" else 6000
    bad_py = None
    for i in range(n_moves):
        md = mds[i % len(mds)]
        t0 = rng.choice([0.0, 10.0, -3.5, 100.0, rng.randint(-400, 400) / 8.0])
        if i % 3 == 0:
            delta = rng.choice([-1, 1]) * rng.randint(1, 90) * md  # an exact multiple of the step (as a product in doubles)
        elif i % 3 == 1:
            delta = rng.choice([-1, 1]) * rng.randint(1, 200) / 20.0  # decimal offsets: 0.05 .. 10.0
        else:
            delta = rng.uniform(-9.0, 9.0)
        t1 = t0 + delta
        legs = float_steps(t0, t1, md)
        probs = violates_legs(t0, t1, md, (), legs)
        if probs:
            bad_py = (t0, t1, md, probs)
            break
    part.record(Q("sat" if bad_py else "unsat", None, 0.0, ""), f"sweep/py: {n_moves} seeded moves (exact multiples, decimal offsets, arbitrary), steps 0.1 .. 3/7: direction, length and sum within 1e-9 (concrete replay)")
    if bad_py:
        t0, t1, md, probs = bad_py
        path = write_replay(PID, {"key": "sweep/py", "info": {"kind": "py-long"}, "inputs": {"t0": t0, "t1": t1, "max_dt": md}, "problems": probs[:5]})
        part.violation("sweep/py", f"Python runtime: t0={t0!r} -> t1={t1!r} max_dt={md!r}: {probs[0]}", path)
        return part.d
    try:
        from . import c10_cpp
    except ImportError:
        return part.d
    bad_cpp = None
    n_cpp = 40 if tier == "quick" else 160
    for i in range(n_cpp):
        md = [0.1, 1.0 / 3.0, 1.0 / 30.0, 0.05][i % 4]
        t0 = rng.choice([0.0, 10.0, -3.5])
        delta = (rng.choice([-1, 1]) * rng.randint(3, 40) * md) if i % 2 == 0 else rng.choice([-1, 1]) * rng.randint(1, 200) / 20.0
        t1 = t0 + delta
        legs = c10_cpp.float_steps_cpp(True, True, md, t0, t1)
        probs = violates_legs(t0, t1, md, (), legs)
        if probs:
            bad_cpp = (t0, t1, md, probs)
            break
    part.record(Q("sat" if bad_cpp else "unsat", None, 0.0, ""), f"sweep/cpp: {n_cpp} seeded moves (exact multiples and decimal offsets), steps 0.1, 1/3, 1/30, 0.05 (concrete replay)")
    if bad_cpp:
        t0, t1, md, probs = bad_cpp
        path = write_replay(PID, {"key": "sweep/cpp", "info": {"kind": "cpp-long", "control": True, "cal": True, "max_dt": md}, "inputs": {"t0": t0, "t1": t1}, "problems": probs[:5]})
        part.violation("sweep/cpp", f"C++ runtime: t0={t0!r} -> t1={t1!r} max_dt={md!r}: {probs[0]}", path)
        return part.d
    for t0, span, md in cases[:3] if tier == "quick" else cases[:6]:
        for sign in (1.0, -1.0):
            t1 = t0 + sign * (span + 0.375 * md)
            key = f"long-run/cpp/t0={t0}/span={sign * span}/max_dt={md}"
            legs = c10_cpp.float_steps_cpp(True, True, md, t0, t1)
            probs = violates_legs(t0, t1, md, (), legs)
            part.record(Q("sat" if probs else "unsat", None, 0.0, ""), f"{key}: {sum(len(l) for l in legs)} steps: direction, length and sum within 1e-9 (concrete replay)")
            if probs:
                path = write_replay(PID, {"key": key, "info": {"kind": "cpp-long", "control": True, "cal": True, "max_dt": md}, "inputs": {"t0": t0, "t1": t1}, "problems": probs[:5]})
                part.violation(key, f"C++ runtime: t0={t0} -> t1={t1} max_dt={md}: {probs[0]}", path)
                return part.d
    return part.d


def _dispatch(fn, args):
    return fn(*args)


def run(tier, seed):
    rep = Report(PID, tier, seed, "other")
    K = 2 if tier == "quick" else 4
    tasks = [(py_task, (K, tier, seed)), (py_task, (1 if tier == "quick" else 2, tier, seed, 1)), (py_task_two_ticks, (1 if tier == "quick" else 2, tier, seed))]
    try:
        from . import c10_cpp

        tasks += c10_cpp.tasks(tier, seed)
        rep.extra["cpp_part"] = "included"
    except ImportError:
        rep.extra["cpp_part"] = "not built yet"
    from . import cfgrb

    tasks += [(cfgrb.task, (PID, *c, tier, seed)) for c in cfgrb.combos(tier)]
    tasks.append((long_run_task, (tier, seed)))
    for d in pmap(_dispatch, tasks):
        rep.merge(d)
    rep.bounds = {"K_full_steps": K, "covered_region": f"|t1 - t0| < {K + 1} * max_dt (leaves beyond are cut and counted)", "max_dt": "Python: symbolic in [1e-9, 10]; C++: enumerated constants", "times": "symbolic in [-1000, 1000]", "histories": "held time is symbolic: one tick from an arbitrary held time covers any sequence of ticks"}
    rep.assumptions = ["reals for doubles (floor of an exact quotient)", "stand-in recording filter for the EKF"]
    return finish(
        rep,
        explanation="The real tick/_process_model (Python) and tick/processUpdate (C++) run on symbolic held time, target time and max_dt with a recording filter; every feasible path within K full steps is explored with solver pruning, and per leaf the solver proves: every step has the sign of the time difference, no step exceeds max_dt, the steps sum to the difference within 1e-9, and no step is taken when the times coincide.",
        rule="one obligation per (runtime, leaf, clause); leaves = feasible (direction, step count, remainder) combinations",
        trusted_base=["z3 5.1", "engine/symreal (SymInt floor concretisation)", "engine/vsym"],
    )


def replay(path):
    with open(path) as f:
        r = json.load(f)
    if r.get("info", {}).get("kind") == "cfgrb":
        from . import cfgrb

        return cfgrb.replay(PID, r["info"])
    if r["info"]["kind"] == "py-two-ticks":
        from formak import runtime

        e = r["inputs"]
        f = RecordingFilter(float(e["max_dt"]))
        mf = runtime.ManagedFilter(f, float(e["t0"]), "s", "P")
        mf.tick(float(e["out1"]))
        n1 = len(f.dts)
        mf.tick(float(e["out2"]))
        got = [float(d) for d in f.dts[n1:]]
        probs = violates_float(e["t0"], e["out2"], e["max_dt"], got)
        print(got, probs)
        print("REPRODUCED" if probs else "not reproduced")
        return 1 if probs else 0
    if r["info"]["kind"] == "cpp-long":
        from . import c10_cpp

        e, i = r["inputs"], r["info"]
        legs = c10_cpp.float_steps_cpp(i["control"], i["cal"], i["max_dt"], e["t0"], e["t1"])
        probs = violates_legs(e["t0"], e["t1"], i["max_dt"], (), legs)
        print(probs[:3])
        print("REPRODUCED" if probs else "not reproduced")
        return 1 if probs else 0
    if r["info"]["kind"] not in ("py", "py-long"):
        from . import c10_cpp

        return c10_cpp.replay(r)
    e = r["inputs"]
    tsf = r.get("ts", [])
    try:
        got = float_steps(e["t0"], e["t1"], e["max_dt"], tsf)
    except Exception as ex:
        print(f"REPRODUCED: raises {type(ex).__name__}: {ex}")
        return 1
    probs = violates_legs(e["t0"], e["t1"], e["max_dt"], tsf, got)
    print("steps", str(got)[:2000])
    if probs:
        print("REPRODUCED:", probs)
        return 1
    print("not reproduced")
    return 0
