"""Shared machinery of the checks: solver queries, reports, evidence, known findings, replay files."""
from __future__ import annotations

import contextlib
import io
import json
import math
import multiprocessing as mp
import os
import sys
import time
import traceback
from fractions import Fraction

import z3

VERIF = os.path.dirname(os.path.dirname(os.path.abspath(__file__)))
REPO = os.environ.get("FORMAK_REPO", "/repo")
EVID = os.environ.get("VERIF_EVIDENCE_DIR") or os.path.join(VERIF, "evidence")
REPLAY_DIR = os.path.join(EVID, "replay")

EXIT_OK, EXIT_VIOLATION, EXIT_HARNESS = 0, 1, 2


def tier_timeout_ms(tier):
    return 20000 if tier == "quick" else 120000


# ------------------------------------------------------------------------------------------- solver layer


class Q:
    """Result of one solver query."""

    __slots__ = ("status", "model", "secs", "tag")

    def __init__(self, status, model, secs, tag):
        self.status, self.model, self.secs, self.tag = status, model, secs, tag


def model_to_dict(m):
    out = {}
    for d in m.decls():
        if d.arity() != 0:
            continue
        v = m[d]
        try:
            if z3.is_rational_value(v):
                out[d.name()] = Fraction(v.numerator_as_long(), v.denominator_as_long())
            elif z3.is_algebraic_value(v):
                a = v.approx(30)
                out[d.name()] = Fraction(a.numerator_as_long(), a.denominator_as_long())
            elif z3.is_int_value(v):
                out[d.name()] = Fraction(v.as_long())
            elif z3.is_true(v) or z3.is_false(v):
                out[d.name()] = bool(z3.is_true(v))
        except Exception:
            pass
    return out


def hard_check(solver, timeout_ms):
    """solver.check() (soft timeout set by the caller).  A watchdog calling ctx.interrupt() was tried and removed: it
    does not stop z3's preprocessing of huge terms and made interpreter shutdown hang in Z3_del_context; queries over
    large terms are instead sent to a killable external solver process (see solve)."""
    try:
        return solver.check()
    except z3.Z3Exception:
        return z3.unknown


def solve_external(constraints, timeout_s=5.0):
    """Status-only query in a separate z3 process that is KILLED at the limit.  For queries over huge nested terms
    where z3's preprocessing neither honours its soft timeout nor reacts to interrupt().  Returns 'unsat'|'sat'|'unknown'."""
    import subprocess
    import tempfile

    s = z3.Solver()
    for c in constraints:
        s.add(c)
    txt = s.to_smt2()
    with tempfile.NamedTemporaryFile("w", suffix=".smt2", delete=False, dir=os.environ.get("TMPDIR", "/tmp")) as f:
        f.write(txt)
        fn = f.name
    try:
        exe = "z3-new" if shutil_which("z3-new") else "z3"
        r = subprocess.run([exe, f"-T:{int(timeout_s) + 1}", fn], capture_output=True, text=True, timeout=timeout_s + 3)
        out = r.stdout.strip().splitlines()
        if "(error" in r.stdout:
            return "unknown"
        return out[0] if out and out[0] in ("sat", "unsat", "unknown") else "unknown"
    except subprocess.TimeoutExpired:
        return "unknown"
    finally:
        try:
            os.remove(fn)
        except OSError:
            pass


def shutil_which(name):
    import shutil

    return shutil.which(name)


BIG_QUERY_NODES = int(os.environ.get("VERIF_BIG_QUERY_NODES", "6000"))


def dag_size(terms, cap):
    seen = set()
    stack = list(terms)
    while stack and len(seen) <= cap:
        e = stack.pop()
        i = e.get_id()
        if i in seen:
            continue
        seen.add(i)
        stack.extend(e.children())
    return len(seen)


def solve(constraints, timeout_ms, tag=""):
    constraints = list(constraints)
    if dag_size(constraints, BIG_QUERY_NODES) > BIG_QUERY_NODES:
        # large nested terms: z3's preprocessing may ignore both its soft timeout and interrupt(); decide the status in
        # a separate solver process that is killed at the limit (no model: callers fall back to seeded candidates)
        t0 = time.time()
        st = solve_external(constraints, timeout_ms / 1000.0)
        return Q(st, {} if st == "sat" else None, time.time() - t0, tag)
    s = z3.Solver()
    s.set("timeout", int(timeout_ms))
    for c in constraints:
        s.add(c)
    t0 = time.time()
    r = hard_check(s, timeout_ms)
    dt = time.time() - t0
    if r == z3.sat:
        return Q("sat", model_to_dict(s.model()), dt, tag)
    if r == z3.unsat:
        return Q("unsat", None, dt, tag)
    return Q("unknown", None, dt, tag)


def free_vars(terms):
    seen, out = set(), {}

    def walk(e):
        if e.get_id() in seen:
            return
        seen.add(e.get_id())
        if z3.is_const(e) and e.decl().kind() == z3.Z3_OP_UNINTERPRETED:
            out[e.decl().name()] = e
        for ch in e.children():
            walk(ch)

    for t in terms:
        walk(t)
    return out


def dyadic_box(vars_, lo=-4, hi=4, denom=8, exclude=()):
    """Constraints putting each variable on a dyadic grid inside a box (for float-exact replay witnesses)."""
    cs = []
    for name, v in vars_.items():
        if name in exclude:
            continue
        k = z3.Int("grid!" + name)
        cs.append(v == z3.ToReal(k) / denom)
        cs.append(k >= lo * denom)
        cs.append(k <= hi * denom)
    return cs


# ------------------------------------------------------------------------------------------- report


class Report:
    def __init__(self, pid, tier, seed, level):
        self.pid, self.tier, self.seed, self.level = pid, tier, seed, level
        self.t0 = time.time()
        self.queries = {"unsat": 0, "sat": 0, "unknown": 0}
        self.solver_s = 0.0
        self.obligations = []  # dicts: name, status
        self.samples = []
        self.violations = []  # dicts: key, what, replay
        self.inconclusive = []
        self.functions = set()
        self.bounds = {}
        self.assumptions = []
        self.programs = set()
        self.extra = {}
        self.harness_errors = []
        self.paths = {"leaves": 0, "cut": 0, "unpruned": 0}
        self.witnesses = 0

    def record(self, q: Q, name):
        self.queries[q.status] += 1
        self.solver_s += q.secs
        self.obligations.append({"name": name, "status": q.status, "s": round(q.secs, 4)})

    def merge(self, d):
        """Merge a worker's plain-dict partial report."""
        for k, v in d.get("queries", {}).items():
            self.queries[k] += v
        self.solver_s += d.get("solver_s", 0.0)
        self.obligations += d.get("obligations", [])
        self.samples += d.get("samples", [])
        self.violations += d.get("violations", [])
        self.inconclusive += d.get("inconclusive", [])
        self.functions |= set(d.get("functions", []))
        self.programs |= set(d.get("programs", []))
        self.harness_errors += d.get("harness_errors", [])
        for k, v in d.get("paths", {}).items():
            self.paths[k] = self.paths.get(k, 0) + v
        self.witnesses += d.get("witnesses", 0)
        for k, v in d.get("extra", {}).items():
            if isinstance(v, (int, float)) and isinstance(self.extra.get(k, 0), (int, float)):
                self.extra[k] = self.extra.get(k, 0) + v
            elif isinstance(v, list):
                self.extra.setdefault(k, [])
                self.extra[k] += v
            else:
                self.extra[k] = v


class Part:
    """Worker-side partial report (plain data, picklable)."""

    def __init__(self):
        self.d = {
            "queries": {"unsat": 0, "sat": 0, "unknown": 0},
            "solver_s": 0.0,
            "obligations": [],
            "samples": [],
            "violations": [],
            "inconclusive": [],
            "functions": [],
            "programs": [],
            "harness_errors": [],
            "paths": {"leaves": 0, "cut": 0, "unpruned": 0},
            "witnesses": 0,
            "extra": {},
        }

    def record(self, q: Q, name):
        self.d["queries"][q.status] += 1
        self.d["solver_s"] += q.secs
        self.d["obligations"].append({"name": name, "status": q.status, "s": round(q.secs, 4)})
        if q.status == "unknown":
            self.d["inconclusive"].append(name)

    def sample(self, s):
        if len(self.d["samples"]) < 6:
            self.d["samples"].append(s)

    def violation(self, key, what, replay):
        self.d["violations"].append({"key": key, "what": what, "replay": replay})

    def harness_error(self, msg):
        self.d["harness_errors"].append(msg)

    def leaves(self, ls):
        self.d["paths"]["leaves"] += len(ls)
        self.d["paths"]["cut"] += sum(1 for l in ls if l.status == "cut")
        self.d["paths"]["unpruned"] += sum(l.unpruned for l in ls)

    def fn(self, *names):
        for n in names:
            if n not in self.d["functions"]:
                self.d["functions"].append(n)

    def program(self, pid):
        if pid not in self.d["programs"]:
            self.d["programs"].append(pid)

    def extra(self, k, v):
        e = self.d["extra"]
        if isinstance(v, (int, float)):
            e[k] = e.get(k, 0) + v
        elif isinstance(v, list):
            e.setdefault(k, [])
            e[k] += v
        else:
            e[k] = v


# ------------------------------------------------------------------------------------------- replay files

_replay_counter = [0]


def write_replay(pid, payload):
    os.makedirs(REPLAY_DIR, exist_ok=True)
    _replay_counter[0] += 1
    path = os.path.join(REPLAY_DIR, f"{pid}-{os.getpid()}-{_replay_counter[0]}.json")
    payload = dict(payload)
    payload["property"] = pid
    if os.environ.get("VERIF_EXTRA_VALIDATION") == "1":
        payload["extra_validation"] = True  # the task ran with Config(extra_validation=True); --replay restores it
    payload["replay_cmd"] = f"bin/check {pid} --replay {path}"
    with open(path, "w") as f:
        json.dump(payload, f, indent=1, default=_json_default)
    return path


def _json_default(o):
    if isinstance(o, Fraction):
        return float(o)
    if isinstance(o, (set, frozenset)):
        return sorted(o)
    try:
        import numpy as np

        if isinstance(o, np.ndarray):
            return o.tolist()
        if isinstance(o, np.generic):
            return o.item()
    except Exception:
        pass
    return repr(o)


# ------------------------------------------------------------------------------------------- known findings


def load_known():
    p = os.path.join(VERIF, "known_findings.json")
    if not os.path.exists(p):
        return {"open": [], "fixed": []}
    with open(p) as f:
        return json.load(f)


def finish(rep: Report, *, explanation, rule, trusted_base=()):
    """Write evidence, print KNOWN-FINDING / VIOLATION lines, return the exit code."""
    known = load_known()
    open_keys = {(e["property"], e["key"]): e for e in known.get("open", [])}
    new_viol, known_hit = [], []
    seen = set()
    for v in rep.violations:
        k = (rep.pid, v["key"])
        if k in seen:
            continue
        seen.add(k)
        if k in open_keys:
            known_hit.append(v)
        else:
            new_viol.append(v)
    for v in known_hit:
        print(f"KNOWN-FINDING: property={rep.pid} {v['key']}: {v['what']}")
    for v in new_viol:
        print(f"VIOLATION property={rep.pid} replay={v['replay']}")
        print(f"  what: {v['key']}: {v['what']}")
    wall = time.time() - rep.t0
    nq = sum(rep.queries.values())
    names = sorted({o["name"] for o in rep.obligations})
    distinct = len({o["name"] for o in rep.obligations if o["status"] != "unknown"})
    cov = {
        "programs": max(1, len(rep.programs)),
        "program_ids": sorted(rep.programs),
        "disagreements_checked": rep.witnesses,
        "samples": rep.samples[:8] or [{"note": "no sample recorded"}],
        "evaluations": max(1, nq),
        "distinct_nontrivial": max(distinct, 0),
        "rule": rule,
        "explanation": explanation,
        "obligations": nq,
        "discharged": rep.queries["unsat"],
        "queries": dict(rep.queries),
        "solver_s": round(rep.solver_s, 3),
        "inconclusive": rep.inconclusive[:40],
        "inconclusive_count": len(rep.inconclusive),
        "paths": rep.paths,
        "functions_encoded": sorted(rep.functions),
        "bounds": rep.bounds,
        "checker_cmd": f"bin/check {rep.pid} --tier {rep.tier}",
        "trusted_base": list(trusted_base),
        "known_findings_reproduced": [v["key"] for v in known_hit],
        "harness_errors": rep.harness_errors[:10],
        "obligation_names_sample": names[:60],
        "exhaustive": False,
    }
    cov.update(rep.extra)
    ev = {
        "property_id": rep.pid,
        "tier": rep.tier,
        "seed": rep.seed,
        "level": rep.level,
        "coverage": cov,
        "assumptions": rep.assumptions,
        "wall_s": round(wall, 2),
        "violations": len(new_viol),
    }
    os.makedirs(EVID, exist_ok=True)
    with open(os.path.join(EVID, f"{rep.pid}.json"), "w") as f:
        json.dump(ev, f, indent=1, default=_json_default)
    print(
        f"[{rep.pid}] tier={rep.tier} queries={nq} unsat={rep.queries['unsat']} sat={rep.queries['sat']} "
        f"unknown={rep.queries['unknown']} leaves={rep.paths.get('leaves', 0)} solver={rep.solver_s:.1f}s wall={wall:.1f}s "
        f"violations={len(new_viol)} known={len(known_hit)}"
    )
    for h in rep.harness_errors[:10]:
        print("HARNESS-ERROR:", h)
    if new_viol:
        # every reported violation was reproduced on the real code, so it stands whatever else the harness
        # could not encode (broken code frequently leaves the encodable fragment elsewhere)
        return EXIT_VIOLATION
    if rep.harness_errors:
        return EXIT_HARNESS
    if distinct < 2:
        print("HARNESS-ERROR: fewer than two obligations were decided; nothing is claimed")
        return EXIT_HARNESS
    return EXIT_OK


# ------------------------------------------------------------------------------------------- parallel map


def _call(args):
    fn, a = args
    buf = io.StringIO()
    try:
        with contextlib.redirect_stdout(buf):
            return fn(*a)
    except BaseException as e:  # worker must always return
        p = Part()
        p.harness_error(f"{fn.__name__}{tuple(str(x)[:60] for x in a)}: {type(e).__name__}: {e}\n{traceback.format_exc()[-1500:]}")
        return p.d


def _child(conn, fn, a):
    try:
        conn.send(_call((fn, a)))
    except BaseException as e:  # pragma: no cover
        try:
            p = Part()
            p.harness_error(f"worker failed to report: {type(e).__name__}: {e}")
            conn.send(p.d)
        except Exception:
            pass
    finally:
        conn.close()


def pmap(fn, arglist, procs=None, task_timeout=None):
    """Run fn(*args) for each args in its own forked process (at most `procs` at a time); fn returns Part().d.
    Every task has a HARD wall-clock limit: a worker stuck inside the solver (z3 can ignore its soft timeout) is
    killed and reported as inconclusive, so a registered command always terminates."""
    arglist = list(arglist)
    if not arglist:
        return []
    procs = procs or min(int(os.environ.get("VERIF_PROCS", "16")), len(arglist))
    if task_timeout is None:
        task_timeout = float(os.environ.get("VERIF_TASK_TIMEOUT", "900" if os.environ.get("VERIF_TIER_ACTIVE", "quick") == "quick" else "1500"))
    ctx = mp.get_context("fork")
    results = [None] * len(arglist)
    pending = list(enumerate(arglist))
    running = {}  # idx -> (proc, conn, t0)
    while pending or running:
        while pending and len(running) < procs:
            idx, a = pending.pop(0)
            parent, child = ctx.Pipe(duplex=False)
            pr = ctx.Process(target=_child, args=(child, fn, a), daemon=True)
            pr.start()
            child.close()
            running[idx] = (pr, parent, time.time())
        done = []
        for idx, (pr, conn, t0) in running.items():
            if conn.poll(0.01):
                try:
                    results[idx] = conn.recv()
                except EOFError:
                    p = Part()
                    p.harness_error(f"worker for task {idx} died without a result")
                    results[idx] = p.d
                done.append(idx)
            elif not pr.is_alive():
                p = Part()
                p.harness_error(f"worker for task {idx} exited (code {pr.exitcode}) without a result")
                results[idx] = p.d
                done.append(idx)
            elif time.time() - t0 > task_timeout:
                pr.kill()
                p = Part()
                p.d["inconclusive"].append(f"task {idx} ({getattr(fn, '__name__', 'task')}{tuple(str(x)[:40] for x in arglist[idx])}) killed after {int(task_timeout)} s (solver did not return)")
                p.d["queries"]["unknown"] += 1
                results[idx] = p.d
                done.append(idx)
        for idx in done:
            pr, conn, _ = running.pop(idx)
            try:
                conn.close()
            except Exception:
                pass
            pr.join(timeout=1)
            if pr.is_alive():
                pr.kill()
        if not done:
            time.sleep(0.03)
    return results


def pmap_staged(fn, first, rest, **kw):
    """Run the cheap concrete tasks first; if they already establish a violation on the real code, the (possibly
    explosive, on broken code) symbolic tasks are skipped - the verdict cannot change and the command stays short."""
    out = pmap(fn, first, **kw)
    if any(d.get("violations") for d in out if d):
        p = Part()
        p.d["inconclusive"].append(f"{len(list(rest))} symbolic tasks skipped: a violation was already reproduced on the real code by the concrete stage")
        return out + [p.d]
    return out + pmap(fn, rest, **kw)


def with_extra_validation(fn, *args):
    """Run a task with every filter / model configured with Config(extra_validation=True) (a documented option the
    corpus otherwise leaves at its default).  Tasks run in their own forked process, so the switch does not leak."""
    os.environ["VERIF_EXTRA_VALIDATION"] = "1"
    d = fn(*args)
    for k in ("violations",):
        for v in d.get(k, []):
            if isinstance(v, dict) and "key" in v:
                v["key"] = v["key"] + "/extra_validation"
    return d


@contextlib.contextmanager
def quiet():
    buf = io.StringIO()
    with contextlib.redirect_stdout(buf):
        yield buf


def approx_equal(a, b, rel=1e-6, abs_=1e-12):
    if isinstance(a, float) and isinstance(b, float) and (math.isnan(a) or math.isnan(b)):
        return False
    return abs(a - b) <= abs_ + rel * max(abs(a), abs(b))
