"""Program corpus (DESIGN section 4).  Every program is written in the harness algebra (engine.symreal.expr)
and rendered to sympy for FormaK; declaration order of every container differs from sorted-by-name order.
"""
from __future__ import annotations

import random
from dataclasses import dataclass, field
from fractions import Fraction

from engine.symreal import expr as X
from engine.symreal.expr import V, C


@dataclass
class Program:
    id: str
    state: list
    control: list
    calibration: list
    update: dict  # state name -> E
    process_noise: dict  # control name -> float
    sensors: dict = field(default_factory=dict)  # key -> {reading -> E}
    sensor_noise: dict = field(default_factory=dict)  # key -> {reading -> float}
    calibration_values: dict = field(default_factory=dict)
    dt: str = "dt"
    ident_safe: bool = True
    note: str = ""
    state_only: bool = False  # covariance obligations are skipped in C04 (stated there)
    real_symbols: bool = False  # the user's symbols carry the sympy assumption real=True

    # ---- name layout computed by the harness itself (not read from formak objects)
    def s_state(self):
        return sorted(self.state)

    def s_control(self):
        return sorted(self.control)

    def s_calibration(self):
        return sorted(self.calibration)

    def s_readings(self, key):
        return sorted(self.sensors[key])

    def s_sensors(self):
        return sorted(self.sensors)

    # ---- sympy rendering
    def symtab(self):
        import sympy

        names = [self.dt] + self.state + self.control + self.calibration
        if self.real_symbols:
            return {n: sympy.Symbol(n, real=True) for n in names}
        return {n: sympy.Symbol(n) for n in names}

    def ui_model(self, container="list", proactive_simplify=False, cal_container="set"):
        from formak import ui_model

        st = self.symtab()
        mk = {"list": list, "set": set, "reversed": lambda l: list(reversed(l))}[container]
        state = mk([st[n] for n in self.state])
        control = mk([st[n] for n in self.control])
        calibration = {"set": set, "list": list, "tuple": tuple}[cal_container](st[n] for n in self.calibration)
        items = [(st[n], X.to_sympy(self.update[n], st)) for n in self.update]
        if container == "reversed":
            items = list(reversed(items))
        return ui_model.Model(dt=st[self.dt], state=state, control=control, state_model=dict(items), calibration=calibration, proactive_simplify=proactive_simplify)

    def sympy_sensors(self, reverse=False):
        st = self.symtab()
        out = {}
        keys = list(self.sensors)
        if reverse:
            keys = keys[::-1]
        for k in keys:
            rs = list(self.sensors[k])
            if reverse:
                rs = rs[::-1]
            out[k] = {r: X.to_sympy(self.sensors[k][r], st) for r in rs}
        return out

    def sympy_process_noise(self, values=None):
        st = self.symtab()
        values = values if values is not None else self.process_noise
        return {st[c]: _as_user_number(values[c]) for c in self.control}

    def sympy_sensor_noise(self, values=None, reverse=False):
        """reverse: declare the sensors and readings of the noise map in the opposite order (binding is by key)."""
        values = values if values is not None else self.sensor_noise
        ks = list(self.sensors)
        if reverse:
            ks = ks[::-1]
        return {k: {r: _as_user_number(values[k][r]) for r in (list(self.sensors[k])[::-1] if reverse else list(self.sensors[k]))} for k in ks}

    def sympy_calibration_map(self, values=None):
        st = self.symtab()
        values = values if values is not None else self.calibration_values
        return {st[c]: values[c] for c in self.calibration}

    def restrict(self, *, control=True, calibration=True, sensors=None, pid=None):
        """Copy with control and/or calibration symbols removed (substituted by constants)."""
        sub = {}
        if not control:
            for i, c in enumerate(self.control):
                sub[c] = C(Fraction(2 * i + 3, 4))
        if not calibration:
            for i, c in enumerate(self.calibration):
                sub[c] = C(Fraction(2 * i + 5, 8))

        def s(e):
            return subst(e, sub)

        keys = list(self.sensors) if sensors is None else [k for k in self.sensors if k in sensors]
        return Program(
            id=pid or (self.id + ("" if control else "-noctl") + ("" if calibration else "-nocal") + ("" if sensors is None else f"-s{len(keys)}")),
            state=list(self.state),
            control=list(self.control) if control else [],
            calibration=list(self.calibration) if calibration else [],
            update={k: s(v) for k, v in self.update.items()},
            process_noise=dict(self.process_noise) if control else {},
            sensors={k: {r: s(e) for r, e in self.sensors[k].items()} for k in keys},
            sensor_noise={k: dict(self.sensor_noise[k]) for k in keys},
            calibration_values=dict(self.calibration_values) if calibration else {},
            dt=self.dt,
            ident_safe=self.ident_safe,
            note=self.note,
        )

    def renamed(self, mapping, pid=None):
        m = dict(mapping)

        def rn(n):
            return m.get(n, n)

        def s(e):
            return subst(e, {k: V(v) for k, v in m.items()})

        return Program(
            id=pid or (self.id + "-ren"),
            state=[rn(n) for n in self.state],
            control=[rn(n) for n in self.control],
            calibration=[rn(n) for n in self.calibration],
            update={rn(k): s(v) for k, v in self.update.items()},
            process_noise={rn(k): v for k, v in self.process_noise.items()},
            sensors={k: {r: s(e) for r, e in rs.items()} for k, rs in self.sensors.items()},
            sensor_noise={k: dict(v) for k, v in self.sensor_noise.items()},
            calibration_values={rn(k): v for k, v in self.calibration_values.items()},
            dt=self.dt,
            ident_safe=self.ident_safe,
            note=self.note,
        )


def _as_user_number(v):
    """A noise value written as a Fraction in the corpus is handed to FormaK as an exact sympy Rational (one of the
    forms a user may write); everything else as it is."""
    if isinstance(v, Fraction):
        import sympy

        return sympy.Rational(v.numerator, v.denominator)
    return v


def subst(e, sub):
    if e.op == "v":
        return sub.get(e.args[0], e)
    if e.op in ("c", "k"):
        return e
    if e.op in ("max", "min", "pw", "atan2", "sgnmul"):
        return X.E(e.op, *[subst(x, sub) for x in e.args])
    if e.op == "pow":
        return X.powi(subst(e.args[0], sub), e.args[1])
    if e.op == "fn":
        return X.fn(e.args[0], subst(e.args[1], sub))
    a = [subst(x, sub) for x in e.args]
    return {"+": X.add, "*": X.mul, "/": X.div}[e.op](*a) if e.op != "neg" else X.neg(a[0])


# ------------------------------------------------------------------------------------------- fixed programs


def P1():
    x, y, a, dt = V("x"), V("y"), V("a"), V("dt")
    return Program(
        id="P1-xy",
        state=["y", "x"],
        control=["a"],
        calibration=[],
        update={"y": y + a * dt, "x": x * y},
        process_noise={"a": 0.25},
        sensors={"simple": {"reading1": x}, "combined": {"reading2": x + y}},
        sensor_noise={"simple": {"reading1": 1.0}, "combined": {"reading2": 4.0}},
        note="upstream unit-test model",
    )


def P2():
    mass, z, v, a, thrust, dt = V("mass"), V("z"), V("v"), V("a"), V("thrust"), V("dt")
    return Program(
        id="P2-mzva",
        state=["z", "mass", "v", "a"],
        control=["thrust"],
        calibration=[],
        update={"mass": mass, "z": z + dt * v, "v": v + dt * a, "a": C(-9.81) * mass + thrust},
        process_noise={"thrust": 1.0},
        sensors={"simple": {"v": v}},
        sensor_noise={"simple": {"v": 1.0}},
        note="the project's own singular-Jacobian example",
    )


def P3():
    x, y, z, u, a, k, dt = V("x"), V("y"), V("z"), V("u"), V("a"), V("k"), V("dt")
    return Program(
        id="P3-nl3",
        state=["y", "z", "x"],
        control=["u", "a"],
        calibration=["k"],
        update={
            "y": y + dt * a - dt * (y * y) / (1 + x * x),
            "z": z * x + u * a * dt,
            "x": x + dt * (y * u) + k * X.sin(z) * dt,
        },
        process_noise={"u": 0.5, "a": 0.125},
        sensors={
            "two": {"q": X.sin(z) + x * k, "p": y * y + k * x},
            "one": {"r": x * z + k},
        },
        sensor_noise={"two": {"q": 0.75, "p": 0.375}, "one": {"r": 2.0}},
        calibration_values={"k": 0.625},
        note="rectangular Jacobians, unequal noise, calibration in state and sensor models",
    )


def P7():
    w, x, y, z, u, dt = V("w"), V("x"), V("y"), V("z"), V("u"), V("dt")
    s = x + y
    s2 = s * s
    t = X.sin(s2)
    return Program(
        id="P7-shared",
        state=["z", "x", "w", "y"],
        control=["u"],
        calibration=[],
        update={
            "w": w + dt * s2 * t,
            "x": x + dt * (s2 + t * t) + u * dt,
            "y": y * t + s2 * s2 * dt,
            "z": z + (s2 + 1) * (s2 + 1) * dt + X.cos(s2) * t,
        },
        process_noise={"u": 0.5},
        sensors={"mix": {"b": s2 * t + w, "a": s2 + t * z}},
        sensor_noise={"mix": {"b": 0.5, "a": 1.5}},
        note="nested shared sub-expressions across outputs (CSE target)",
    )


def P8():
    x, y, c1, c2, u, dt = V("x"), V("y"), V("c1"), V("c2"), V("u"), V("dt")
    return Program(
        id="P8-wide",
        state=["y", "x"],
        control=["u"],
        calibration=["c2", "c1"],
        update={"y": y + dt * (x * c1 - u), "x": x + dt * y * c2},
        process_noise={"u": 0.75},
        sensors={"wide": {"r3": x * y + c1, "r1": x + c2 * y, "r2": y * y * c1}},
        sensor_noise={"wide": {"r3": 0.5, "r1": 1.25, "r2": 2.5}},
        calibration_values={"c1": 0.375, "c2": 1.75},
        note="more readings than states, two calibration values",
    )


def P10():
    """Three controls / three calibrations / exp and division (beyond the quick corpus' shapes)."""
    p, q, dt = V("p"), V("q"), V("dt")
    f1, f2, f3 = V("f1"), V("f2"), V("f3")
    g1, g2, g3 = V("g1"), V("g2"), V("g3")
    return Program(
        id="P10-c3k3",
        state=["q", "p"],
        control=["f3", "f1", "f2"],
        calibration=["g2", "g3", "g1"],
        update={
            "q": q + dt * (f1 * g1 - f2 * p) + X.exp(g3 * dt) * f3,
            "p": p * X.cos(q) + dt * f2 * f3 / (1 + g2 * g2) + f1,
        },
        process_noise={"f3": 0.5, "f1": 0.25, "f2": 1.5},
        sensors={"sb": {"b": p * g1 + q * g2, "a": q * q * g3}, "ta": {"c": p - g2}},
        sensor_noise={"sb": {"b": 0.5, "a": 0.25}, "ta": {"c": 1.5}},
        calibration_values={"g1": 0.5, "g2": 1.25, "g3": 0.75},
        note="3 controls, 3 calibrations, 2 states: controls/calibrations outnumber states",
    )


def P11():
    """Inverse-function compositions, abs and sqrt of a square: targets of unsound 'simplifications'.
    Model-level only (abs is not differentiable; the EKF checks do not use this program)."""
    h, p, d, w, k, dt = V("h"), V("p"), V("d"), V("w"), V("k"), V("dt")
    return Program(
        id="P11-angles",
        state=["p", "h", "d"],
        control=["w"],
        calibration=["k"],
        update={
            "p": X.asin(X.sin(p + dt * w * k)),
            "h": X.atan(X.tan(h + dt * w)),
            "d": d - dt * k * (d - w) * X.absv(d - w) + X.sqrt((d + w) * (d + w)) * dt,
        },
        process_noise={"w": 0.5},
        sensors={},
        sensor_noise={},
        calibration_values={"k": 0.75},
        note="angle wrapping atan(tan(.)), asin(sin(.)), quadratic drag with abs, sqrt of a square",
    )


def P12():
    """Control Jacobian depends on the control values but on no state; process Jacobian depends on state only:
    the shape on which a Jacobian memoised per dt / per state goes stale."""
    s_, r, a, b, dt = V("s"), V("r"), V("a"), V("b"), V("dt")
    return Program(
        id="P12-ctlnl",
        state=["s", "r"],
        control=["b", "a"],
        calibration=[],
        update={"s": s_ + X.sin(a) * dt + a * b * dt, "r": r * s_ + b * b * dt},
        process_noise={"b": 0.5, "a": 0.25},
        sensors={"prod": {"m": s_ * r}, "lin": {"n": s_ + 2 * r}, "drag": {"f": r * X.sqrt(r * r)}},
        sensor_noise={"prod": {"m": 0.5}, "lin": {"n": 0.25}, "drag": {"f": 0.75}},
        note="V depends on controls only; sensor 'prod' is bilinear (second derivatives w.r.t. each state vanish), 'lin' is linear, 'drag' has a nested power sqrt(r^2) in its Jacobian",
    )


def P13():
    """Constant-velocity model with a two-reading sensor whose predicted readings are strongly correlated and whose
    noise is small: the regime in which a wrong S^-1 or a wrong update order destroys positive semi-definiteness."""
    x, v, a, dt = V("x"), V("v"), V("a"), V("dt")
    return Program(
        id="P13-xv-pair",
        state=["x", "v"],
        control=["a"],
        calibration=[],
        update={"x": x + v * dt, "v": v + a * dt},
        process_noise={"a": 0.25},
        sensors={"pair": {"r1": x + v, "r0": x}},
        sensor_noise={"pair": {"r1": 0.0009765625, "r0": 0.001953125}},
        note="correlated two-reading sensor, small noise (covariance-validity histories)",
    )


def P14():
    """Bilinear in state and control: the process Jacobian contains NO state symbol but depends on the controls;
    the control Jacobian depends on the state."""
    lv, m2, v, w, dt = V("lv"), V("m2"), V("v"), V("w"), V("dt")
    return Program(
        id="P14-bilinear",
        state=["m2", "lv"],
        control=["w", "v"],
        calibration=[],
        update={"lv": lv - v * lv * dt, "m2": m2 + w * lv * dt + v * m2 * dt},
        process_noise={"w": 0.5, "v": 0.25},
        sensors={"lvl": {"s": lv + m2, "h": lv * m2}},
        sensor_noise={"lvl": {"s": 0.5, "h": 0.25}},
        note="G = [[1 - v dt, 0], [w dt, 1 + v dt]] (no state symbols), V depends on the state",
    )


def P15():
    """State names x0, x1, x2 (what sympy's cse() would call its temporaries by default) with enough shared
    sub-expressions that several temporaries are extracted."""
    x0, x1, x2, u, dt = V("x0"), V("x1"), V("x2"), V("u"), V("dt")
    s_ = x0 + x1
    s2 = s_ * s_
    t = X.sin(s2)
    c = X.cos(x2 * s_)
    return Program(
        id="P15-xnames",
        state=["x1", "x2", "x0"],
        control=["u"],
        calibration=[],
        update={"x0": x0 + dt * s2 * t + c * u * dt, "x1": x1 * t + s2 * c * dt, "x2": x2 + (s2 + 1) * c + t * t * dt},
        process_noise={"u": 0.5},
        sensors={"v3": {"x1": s2 * t, "x0": c + x2}},
        sensor_noise={"v3": {"x1": 0.5, "x0": 0.25}},
        note="vector-component style names x0..x2; many shared sub-expressions",
    )


def P16():
    """Singular process Jacobian (x3 is an exact function of x and v) and a sensor with MORE readings than states."""
    x, v, x3, a, dt = V("x"), V("v"), V("x3"), V("a"), V("dt")
    return Program(
        id="P16-tall-singular",
        state=["v", "x3", "x"],
        control=["a"],
        calibration=[],
        update={"x": x + v * dt, "v": v + a * dt, "x3": 3 * (x + v * dt)},
        process_noise={"a": 0.25},
        sensors={"quad": {"r2": x + v, "r0": x, "r3": x3 - x, "r1": v}},
        sensor_noise={"quad": {"r2": 0.5, "r0": 0.25, "r3": 0.75, "r1": 1.0}},
        note="4 readings on 3 states; after one prediction the covariance is singular (exactly correlated states)",
    )


def P17():
    """Structure rather than numbers: a state that appears on no right-hand side (not even its own) and sorts
    first, a carried-over state (bias' = bias) that a sensor mixes with an evolving one, a state whose update
    does not mention itself, and sensor Jacobian entries that are exact constants of three kinds
    (integer 1, rational 1/2, the symbolic constant pi)."""
    a_load, bias, pos, vel, push, lever, dt = V("a_load"), V("bias"), V("pos"), V("vel"), V("push"), V("lever"), V("dt")
    return Program(
        id="P17-structure",
        state=["pos", "vel", "bias", "a_load"],
        control=["push"],
        calibration=["lever"],
        update={"pos": pos + dt * vel, "vel": vel + dt * push, "bias": bias, "a_load": C(Fraction(1, 2)) * push},
        process_noise={"push": 0.25},
        sensors={"speed": {"m": vel + bias}, "mid": {"h": (pos + a_load) / 2 + lever}, "compass": {"c": pos * X.PI + bias, "d": vel * lever}},
        sensor_noise={"speed": {"m": 0.5}, "mid": {"h": 0.25}, "compass": {"c": 0.125, "d": 0.375}},
        calibration_values={"lever": 0.625},
        note="unused-first state, carried-over state, self-free update, constant Jacobian entries 1, 1/2 and pi",
    )


def P18():
    """Switching functions: two Piecewise updates in one block, Max / Min with integer-constant arguments."""
    brake, throttle, v, cmd, dt = V("brake"), V("throttle"), V("v"), V("cmd"), V("dt")
    return Program(
        id="P18-switching",
        state=["v", "throttle", "brake"],
        control=["cmd"],
        calibration=[],
        update={
            "brake": X.pw(cmd - v, brake + dt * cmd, brake / 2),
            "throttle": X.pw(v, throttle + dt, throttle - dt * cmd),
            "v": X.maxv(0, v + dt * (throttle - brake)) + X.minv(cmd, 10) * dt,
        },
        process_noise={"cmd": 0.25},
        sensors={"speedo": {"s": X.maxv(v, 0) + brake}},
        sensor_noise={"speedo": {"s": 0.5}},
        ident_safe=True,
        note="Piecewise x2, Max(0, .), Min(., 10): model-level checks only (not differentiable on the switching surfaces)",
    )


def P19():
    """Nested powers in the PROCESS model (quadratic drag v*sqrt(v^2), |u + w| written as sqrt((u+w)^2)): the
    process and control Jacobians contain sign(v)-like factors that an assumption-violating rewrite flattens."""
    v, u, w, dt = V("v"), V("u"), V("w"), V("dt")
    return Program(
        id="P19-powers",
        state=["v", "u"],
        control=["w"],
        calibration=[],
        update={"v": v - dt * v * X.sqrt(v * v) + w * dt, "u": u + dt * X.sqrt((u + w) * (u + w))},
        process_noise={"w": 0.25},
        sensors={"mag": {"m": X.sqrt(v * v) + u}},
        sensor_noise={"mag": {"m": 0.5}},
        note="sqrt of a square in state update, process Jacobian, control Jacobian and sensor",
    )


def P20():
    """Angle wrap 2*atan(tan(./2)) in an EKF-safe (differentiable) model: an inverse-function cancellation is only
    visible when the heading leaves (-pi, pi]."""
    hd, x, om, dt = V("heading"), V("x"), V("omega"), V("dt")
    return Program(
        id="P20-wrap",
        state=["heading", "x"],
        control=["omega"],
        calibration=[],
        update={"heading": 2 * X.atan(X.tan((hd + om * dt) / 2)), "x": x + dt * X.cos(hd)},
        process_noise={"omega": 0.25},
        sensors={"compass": {"c": hd + x}},
        sensor_noise={"compass": {"c": 0.5}},
        note="wrapped heading",
    )


def P21():
    """Range / bearing to a landmark whose position is a calibration: the classic two-argument atan2 sensor."""
    x, y, th, v, w, lx, ly, dt = V("x"), V("y"), V("th"), V("v"), V("w"), V("lx"), V("ly"), V("dt")
    return Program(
        id="P21-bearing",
        state=["x", "y", "th"],
        control=["v", "w"],
        calibration=["lx", "ly"],
        update={"x": x + v * X.cos(th) * dt, "y": y + v * X.sin(th) * dt, "th": th + w * dt},
        process_noise={"v": 0.25, "w": 0.125},
        sensors={"landmark": {"bearing": X.atan2(y - ly, x - lx) - th, "range": X.sqrt((x - lx) * (x - lx) + (y - ly) * (y - ly))}, "odo": {"s": X.atan2(X.sin(th), X.cos(th))}},
        sensor_noise={"landmark": {"bearing": 0.0625, "range": 0.25}, "odo": {"s": 0.5}},
        calibration_values={"lx": 2.5, "ly": -1.25},
        note="atan2 with both arguments depending on the state (argument order matters), range = sqrt of a sum of squares",
    )


def P22():
    """Eleven states (two-digit indices x10 / data(10, 0) / jacobian(10, 9)), a chain x_i' = x_i + dt x_{i+1}."""
    dt = V("dt")
    names = [f"x{i}" for i in range(11)]
    xs = [V(n) for n in names]
    u, w = V("u"), V("w")
    upd = {names[i]: xs[i] + dt * xs[i + 1] for i in range(10)}
    upd["x10"] = xs[10] + dt * u + w * xs[2] * dt
    return Program(
        id="P22-eleven",
        state=names,
        control=["u", "w"],
        calibration=[],
        update=upd,
        process_noise={"u": 0.25, "w": 0.5},
        sensors={"ends": {"a": xs[0] + xs[10], "b": xs[9] * xs[2]}, "mid": {"m": xs[5] + 2 * xs[1]}},
        sensor_noise={"ends": {"a": 0.5, "b": 0.25}, "mid": {"m": 0.125}},
        note="two-digit row/column indices; x10 sorts between x1 and x2",
    )


def P23():
    """Numeric literals of every kind carried through code generation: non-representable decimals, tiny and huge
    magnitudes, a rational, a large integer, negative constants."""
    a, b, g, dt = V("a"), V("b"), V("g"), V("dt")
    return Program(
        id="P23-numbers",
        state=["a", "b"],
        control=["g"],
        calibration=[],
        update={
            "a": a + C(0.1) * dt * b - C(1e-7) * a * a + C(Fraction(1, 3)) * g * dt + C(123456789.125) * dt * dt,
            "b": b * C(-0.3) + C(2**40) * dt * dt * dt + C(1e22) * dt * dt * dt * dt * dt + g * C(2.5e-9) - C(7) * a / C(3),
        },
        process_noise={"g": 0.1},
        sensors={"s": {"p": C(0.7) * a - C(1e-3) * b, "q": b / C(3) + C(1000001) * a}},
        sensor_noise={"s": {"p": 0.3, "q": 1e-3}},
        note="literals: 0.1, 1e-7, 1/3, 123456789.125, -0.3, 2^40, 1e22, 2.5e-9, 7/3, 0.7, 1e-3, 1000001",
    )


def P24():
    """Physically tiny coefficients (6.674e-11, 3e-13, 4e-17) on terms that matter for large states, and a gain that is
    almost but not exactly one: invisible at O(1) inputs, decisive at 1e5..1e6."""
    a, b, g, dt = V("a"), V("b"), V("g"), V("dt")
    return Program(
        id="P24-tiny-coefficients",
        state=["a", "b"],
        control=["g"],
        calibration=[],
        update={
            "a": C(1.0000000004) * a + C(6.674e-11) * b * b * dt + C(3e-13) * a * a * a * dt,
            "b": b + C(4e-17) * a * a * b * b * dt + g * dt,
        },
        process_noise={"g": 0.25},
        sensors={"s": {"p": C(4e-17) * a * a * a + b, "q": a * C(3e-13) * b * b + a}},
        sensor_noise={"s": {"p": 0.5, "q": 0.25}},
        note="coefficients 1.0000000004, 6.674e-11, 3e-13, 4e-17",
        state_only=True,
    )


def P25():
    """A sensor with a tiny gain and a matching tiny noise (micro-units): S = H P H^T + Q is of order 1e-12 although
    the normalised innovation is O(1)."""
    x, v, a, dt = V("x"), V("v"), V("a"), V("dt")
    return Program(
        id="P25-micro",
        state=["x", "v"],
        control=["a"],
        calibration=[],
        update={"x": x + v * dt, "v": v + a * dt},
        process_noise={"a": 0.25},
        sensors={"micro": {"m": C(2.0 ** -20) * x}, "plain": {"q": v}},
        sensor_noise={"micro": {"m": 2.0 ** -40}, "plain": {"q": 0.5}},
        note="reading 2^-20 * x with noise variance 2^-40",
    )


def P26():
    """Exactly correlated states and a state whose variance is exactly zero but only by cancellation (d = k x - y with
    y = k x): the computed variance is a few 1e-17 of either sign."""
    x, y, d, u, dt = V("x"), V("y"), V("d"), V("u"), V("dt")
    k = C(0.7)
    return Program(
        id="P26-zero-variance",
        state=["x", "y", "d"],
        control=["u"],
        calibration=[],
        update={"x": x + dt * u, "y": k * (x + dt * u), "d": k * x - y},
        process_noise={"u": 1.0},
        sensors={"position": {"r0": x}},
        sensor_noise={"position": {"r0": 0.3}},
        note="singular process Jacobian, zero variance by cancellation",
    )


def P27():
    """Reciprocal trigonometric functions (Euler-angle kinematics): sec, csc, cot."""
    ph, th, ps_, p_, q_, r_, dt = V("phi"), V("theta"), V("psi"), V("p"), V("q"), V("r"), V("dt")
    return Program(
        id="P27-reciprocal-trig",
        state=["phi", "theta", "psi"],
        control=["p", "q", "r"],
        calibration=[],
        update={
            "phi": ph + dt * (p_ + (q_ * X.sin(ph) + r_ * X.cos(ph)) * X.tan(th)),
            "theta": th + dt * (q_ * X.cos(ph) - r_ * X.sin(ph)) + dt * X.cot(ph + 2) * X.C(Fraction(1, 8)),
            "psi": ps_ + dt * (q_ * X.sin(ph) + r_ * X.cos(ph)) * X.sec(th) + dt * X.csc(ps_ + 2) * X.C(Fraction(1, 4)),
        },
        process_noise={"p": 0.25, "q": 0.5, "r": 0.125},
        sensors={"att": {"a": X.sec(th) + ph, "b": X.csc(ps_ + 2)}},
        sensor_noise={"att": {"a": 0.5, "b": 0.25}},
        note="sec / csc / cot in state update and sensor",
    )


def P28():
    """A mounting angle as calibration: cos(th) and sin(th) are shared sub-expressions that depend on calibration only."""
    x, y, u, v, th, dt = V("x"), V("y"), V("u"), V("v"), V("th"), V("dt")
    c, s_ = X.cos(th), X.sin(th)
    return Program(
        id="P28-mount",
        state=["x", "y"],
        control=["u", "v"],
        calibration=["th"],
        update={"x": x + dt * (c * u - s_ * v), "y": y + dt * (s_ * u + c * v)},
        process_noise={"u": 0.25, "v": 0.5},
        sensors={"front": {"a": c * x + s_ * y, "b": c * y - s_ * x}},
        sensor_noise={"front": {"a": 0.5, "b": 0.25}},
        calibration_values={"th": 0.625},
        note="calibration-only common sub-expressions",
    )


def P29():
    """A state that is reset to exactly zero on every step (update expression 0), next to ordinary ones."""
    x, r, u, dt = V("x"), V("r"), V("u"), V("dt")
    return Program(
        id="P29-zero-update",
        state=["x", "r", "w"],
        control=["u"],
        calibration=[],
        update={"x": x + dt * u + r, "r": C(0), "w": x * dt},
        process_noise={"u": 0.25},
        sensors={"s": {"m": x + r}},
        sensor_noise={"s": {"m": 0.5}},
        note="update expression that is the constant 0",
    )


def P30():
    """P3 under long descriptive names: generated statements contain whitespace-free runs of more than 100 characters."""
    return P3().renamed(
        {
            "x": "ground_speed_estimate_in_meters_per_second",
            "y": "lateral_slip_velocity_in_meters_per_second",
            "z": "heading_angle_relative_to_true_north_rad",
            "u": "commanded_drivetrain_torque_newton_meters",
            "a": "accelerator_pedal_position_normalised_01",
            "k": "drivetrain_efficiency_calibration_factor",
        },
        pid="P30-long-names",
    )


def P31():
    """Quadratic drag with Abs on symbols declared real (sympy assumptions carried by the user's symbols)."""
    v, x, u, k, dt = V("v"), V("x"), V("u"), V("k"), V("dt")
    return Program(
        id="P31-real-abs",
        state=["x", "v"],
        control=["u"],
        calibration=["k"],
        update={"x": x + v * dt, "v": v - dt * k * v * X.absv(v) + u * dt},
        process_noise={"u": 0.25},
        sensors={"speed": {"s": X.absv(v) + x}},
        sensor_noise={"speed": {"s": 0.5}},
        calibration_values={"k": 0.375},
        real_symbols=True,
        note="Abs with real symbols: derivatives contain sign(v)",
    )


def P32():
    """A shared difference that is also a denominator: at x == y the temporary is exactly 0.0 (a floating-point event)."""
    x, y, z, dt = V("x"), V("y"), V("z"), V("dt")
    d = x - y
    return Program(
        id="P32-shared-denominator",
        state=["x", "y", "z"],
        control=[],
        calibration=[],
        update={"x": x + dt * z + d * d, "y": y + dt * X.sin(d), "z": X.atan(dt / d) + d},
        process_noise={},
        sensors={"s": {"m": z + d}},
        sensor_noise={"s": {"m": 0.5}},
        note="common sub-expression used as a divisor",
    )


def P33():
    """A Gaussian weight: exp(-(x*x)) underflows to exactly 0.0 for |x| > ~27.3 although the expression is defined there."""
    x, w, v, dt = V("x"), V("w"), V("v"), V("dt")
    return Program(
        id="P33-gaussian-weight",
        state=["x", "w"],
        control=["v"],
        calibration=[],
        update={"x": x + dt * v, "w": w * X.exp(C(0) - x * x) + dt},
        process_noise={"v": 0.25},
        sensors={"s": {"m": x + w}},
        sensor_noise={"s": {"m": 0.5}},
        note="exp of a large negative argument (underflow is a defined result)",
    )


def quick_programs():
    return [P1(), P3(), P8()]


def all_fixed():
    return [P1(), P2(), P3(), P7(), P8(), P10(), P12(), P13(), P14(), P15(), P16(), P17(), P19(), P20()]


def catalogue():
    """Every fixed program, including the model-level-only ones (replay looks programs up by id here)."""
    return all_fixed() + [P11(), P18(), P21(), P22(), P23(), P24(), P25(), P26(), P27(), P28(), P29(), P30(), P31(), P32(), P33()]


def with_noise(p, process=None, sensor=None, pid=None):
    """Copy of p with some noise entries replaced (e.g. an exactly-zero variance, which the generators accept)."""
    q = p.restrict(pid=pid or (p.id + "-noise"))
    for c, v in (process or {}).items():
        q.process_noise[c] = v
    for key, rs in (sensor or {}).items():
        for r, v in rs.items():
            q.sensor_noise[key][r] = v
    return q


def presence_variants(p):
    """The four control x calibration presence combinations of a program that has both."""
    out = []
    for ctl in (True, False):
        for cal in (True, False):
            out.append(p.restrict(control=ctl, calibration=cal))
    return out


# ------------------------------------------------------------------------------------------- random programs


def random_program(seed, idx):
    rng = random.Random(seed * 7919 + idx)
    n_s = rng.randint(1, 4)
    n_c = rng.randint(0, 2)
    n_k = rng.randint(0, 2)
    pool = ["al", "B", "_c", "a1", "a_1", "aa", "A", "zz", "Q", "m_", "x9", "be", "Y", "w"]
    rng.shuffle(pool)
    state = pool[:n_s]
    control = pool[n_s : n_s + n_c]
    cal = pool[n_s + n_c : n_s + n_c + n_k]
    atoms = [V(n) for n in state + control + cal] + [V("dt")]

    def gen(depth):
        if depth == 0 or rng.random() < 0.25:
            if rng.random() < 0.2:
                return C(Fraction(rng.randint(-6, 6), rng.choice([1, 2, 4])))
            return rng.choice(atoms)
        op = rng.choice(["+", "-", "*", "*", "/", "pow", "sin", "cos", "exp"])
        if op == "+":
            return gen(depth - 1) + gen(depth - 1)
        if op == "-":
            return gen(depth - 1) - gen(depth - 1)
        if op == "*":
            return gen(depth - 1) * gen(depth - 1)
        if op == "/":
            d = gen(depth - 1)
            return gen(depth - 1) / (1 + d * d)
        if op == "pow":
            return X.powi(gen(depth - 1), rng.choice([2, 3]))
        if op == "exp":
            return X.exp(rng.choice(atoms))
        return X.fn(op, gen(depth - 1))

    def sgen(depth):
        # sensor expressions may only use state and calibration
        at = [V(n) for n in state + cal]
        if depth == 0 or rng.random() < 0.3:
            return rng.choice(at)
        op = rng.choice(["+", "*", "*", "sin", "pow"])
        if op == "+":
            return sgen(depth - 1) + sgen(depth - 1)
        if op == "*":
            return sgen(depth - 1) * sgen(depth - 1)
        if op == "pow":
            return X.powi(sgen(depth - 1), 2)
        return X.sin(sgen(depth - 1))

    update = {s: V(s) + gen(2) * V("dt") if rng.random() < 0.7 else gen(3) for s in state}
    n_sens = rng.randint(0, 2)
    sensors, noise = {}, {}
    rnames = ["rb", "Ra", "r_", "r2", "r10"]
    for i in range(n_sens):
        key = ["beta", "alpha"][i]
        m = rng.randint(1, 3)
        rs = rng.sample(rnames, m)
        sensors[key] = {r: sgen(2) for r in rs}
        noise[key] = {r: rng.choice([0.25, 0.5, 0.75, 1.5, 2.0, 3.0]) + 0.125 * j for j, r in enumerate(rs)}
    return Program(
        id=f"R{seed}-{idx}",
        state=state,
        control=control,
        calibration=cal,
        update=update,
        process_noise={c: [0.25, 0.5, 1.5][i] for i, c in enumerate(control)},
        sensors=sensors,
        sensor_noise=noise,
        calibration_values={k: [0.375, 1.25][i] for i, k in enumerate(cal)},
        note="random member of the typed grammar",
    )
